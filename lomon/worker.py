"""One shard of one property's workload.  python -m lomon.worker PROP TIER SEED SHARD NSHARDS OUT"""
import collections
import importlib
import json
import random
import sys
import time
import traceback


class Ctx:
    def __init__(self, prop, tier, seed, shard, nshards):
        self.prop, self.tier, self.seed, self.shard, self.nshards = prop, tier, seed, shard, nshards
        self.rng = random.Random(f"{prop}/{seed}/{shard}/{nshards}")
        self.evals = 0
        self.keys = collections.Counter()
        self.oracles = collections.Counter()
        self.stats = collections.Counter()
        self.fail_n = collections.Counter()
        self.fail_keep = {}
        self.samples = []
        self.near = []
        self.inconcl = collections.Counter()
        self.case = None
        self._known = None
        self.t0 = time.time()

    # --- oracle verdicts
    def ok(self, oracle, key=None, nontrivial=True, sample=None, near=None):
        self.evals += 1
        self.oracles[oracle] += 1
        if key is not None and nontrivial:
            self.keys[f"{oracle}|{key}"] += 1
        if sample is not None and len(self.samples) < 6 and self.rng.random() < 0.05:
            self.samples.append(sample)
        if near is not None and len(self.near) < 20:
            self.near.append(near)

    def fail(self, oracle, mode, cls="", path="", exc=None, err=None, tags=(), detail=None, case=None, info=()):
        """tags: mechanism-relevant (part of the fingerprint); info: descriptive (matchable, not fingerprinted)"""
        from . import findings
        from .findings import fingerprint

        if self._known is None:
            self._known = findings.load()
        self.evals += 1
        self.oracles[oracle] += 1
        rec = dict(prop=self.prop, oracle=oracle, mode=mode, cls=cls, path=path, tags=sorted(set(tags)), info=sorted(set(info)))
        if exc is not None:
            rec.update(exc=exc.type, frame=exc.frame, msg=exc.msg, tb=exc.tb, lib_raise=exc.lib_raise)
        else:
            rec.update(exc="", frame="")
        if err is not None:
            rec["err"] = err if err == err and abs(err) != float("inf") else str(err)
        if detail is not None:
            rec["detail"] = detail
        c = case if case is not None else self.case
        if isinstance(c, dict):
            from .zoo import spec_classes

            cl = set()
            for k in ("spec", "left", "right"):
                if isinstance(c.get(k), dict) and "cls" in c[k]:
                    cl |= spec_classes(c[k])
            if cl:
                rec["classes"] = sorted(cl)
        k = findings.match(rec, self._known)
        rec["known"] = k
        fp = fingerprint(rec) + f"#{k}"
        self.fail_n[fp] += 1
        if fp not in self.fail_keep:
            rec["case"] = case if case is not None else self.case
            self.fail_keep[fp] = rec
        return rec

    def stat(self, name, k=1):
        self.stats[name] += k

    def inconclusive(self, why):
        self.inconcl[why] += 1

    def dump(self, path, wall, ncases, done):
        doc = dict(
            evals=self.evals, keys=self.keys, oracles=self.oracles, stats=self.stats, fail_n=self.fail_n,
            fail_keep=self.fail_keep, samples=self.samples, near=self.near, inconcl=self.inconcl, wall=wall,
            ncases=ncases, done=done,
        )
        with open(path, "w") as f:
            json.dump(doc, f, default=str)


def _seed_global_rng(case):
    """every case starts from a global torch RNG state derived from the case itself, so that a replay of the case reproduces the
    random Lanczos start vectors / probes the library draws"""
    import hashlib

    import torch

    h = hashlib.sha256(json.dumps(case, sort_keys=True, default=str).encode()).digest()
    torch.manual_seed(int.from_bytes(h[:7], "big"))


def run_shard(prop, tier, seed, shard, nshards, out):
    from . import env

    env.setup()
    mod = importlib.import_module(f"lomon.props.{prop.lower()}")
    ctx = Ctx(prop, tier, seed, shard, nshards)
    budget = mod.BUDGET[tier]
    ncases = 0
    t0 = time.time()
    setup = getattr(mod, "setup", None)
    if setup:
        setup(ctx)
    from .monitors import settings_guard

    done = "cases"
    for case in mod.gen_cases(ctx):
        if time.time() - t0 > budget["seconds"]:
            done = "time"
            break
        ctx.case = case
        _seed_global_rng(case)
        try:
            mod.run_case(case, ctx)
        except Exception as e:  # harness error: never a verdict about the library
            ctx.inconclusive("harness:" + type(e).__name__ + ":" + str(e)[:100] + "@" + traceback.format_exc().strip().splitlines()[-3].strip()[:100])
        ncases += 1
        leak = settings_guard.check_and_reset()
        if leak:
            ctx.stat("settings_leak_after_case")
            if getattr(mod, "SETTINGS_LEAK_IS_FAILURE", False):
                ctx.fail("settings_default_after_case", "leak", detail=leak)
    fin = getattr(mod, "finish", None)
    if fin:
        fin(ctx)
    ctx.dump(out, time.time() - t0, ncases, done)


def replay(prop, path):
    from . import env

    env.setup()
    mod = importlib.import_module(f"lomon.props.{prop.lower()}")
    doc = json.load(open(path))
    ctx = Ctx(prop, "replay", 0, 0, 1)
    setup = getattr(mod, "setup", None)
    if setup:
        setup(ctx)
    ctx.case = doc["case"]
    _seed_global_rng(doc["case"])
    mod.run_case(doc["case"], ctx)
    for fp, rec in ctx.fail_keep.items():
        r = dict(rec)
        r.pop("case", None)
        print("FAIL", json.dumps(r, default=str))
    print(f"replayed: {ctx.evals} oracle evaluations, {sum(ctx.fail_n.values())} failing")
    return 1 if ctx.fail_n else 0


if __name__ == "__main__":
    a = sys.argv[1:]
    if a[0] == "--replay":
        sys.exit(replay(a[1], a[2]))
    run_shard(a[0], a[1], int(a[2]), int(a[3]), int(a[4]), a[5])
