"""Tolerance policy (DESIGN 2.4) and exception capture."""
import os
import re
import traceback

import torch

LIBDIR = os.sep + "linear_operator" + os.sep


def in_lib(filename):
    return LIBDIR in filename and "/site-packages/" not in filename and (LIBDIR + "test" + os.sep) not in filename


def is64(dtype):
    return dtype == torch.float64


def tol_structural(dtype):
    return 1e-10 if is64(dtype) else 2e-4


def tol_fft(dtype):
    return 1e-9 if is64(dtype) else 1e-3


def tol_direct(dtype, kappa=1.0):
    if is64(dtype):
        return min(1e-11 * max(kappa, 1.0) + 1e-10, 1e-5)
    return min(1e-5 * max(kappa, 1.0) + 2e-4, 3e-2)


def relerr(got, ref, scale=1.0):
    """||got - ref|| / (||ref|| + scale) in float64; inf on shape mismatch or non-finite got"""
    if tuple(got.shape) != tuple(ref.shape):
        return float("inf")
    g = got.detach().to(torch.float64)
    r = ref.detach().to(torch.float64)
    if not torch.isfinite(g).all():
        return float("inf")
    return ((g - r).norm() / (r.norm() + scale)).item()


def cond(dense):
    """2-norm condition number of (batched) symmetric dense matrix, worst over batch"""
    d = dense.detach().to(torch.float64)
    ev = torch.linalg.eigvalsh((d + d.mT) / 2)
    lo = ev[..., 0].abs().clamp_min(1e-300)
    return float((ev[..., -1].abs() / lo).max())


class Exc:
    __slots__ = ("type", "msg", "frame", "lib_raise", "tb")

    def __init__(self, e):
        self.type = type(e).__name__
        self.msg = str(e).replace("\n", " ")[:160]
        tb = traceback.extract_tb(e.__traceback__)
        fr = [f for f in tb if in_lib(f.filename)]
        if fr:
            f = fr[-1]
            self.frame = f.filename.split(LIBDIR)[-1] + ":" + f.name
            # raised by a raise statement of the library itself (not from inside torch)
            self.lib_raise = f is tb[-1]
        else:
            self.frame = "outside"
            self.lib_raise = False
        self.tb = [f"{f.filename.split(LIBDIR)[-1]}:{f.name}:{f.lineno}" for f in fr[-10:]]

    def as_dict(self):
        return dict(type=self.type, msg=self.msg, frame=self.frame, lib_raise=self.lib_raise, tb=self.tb)


_UNSUPPORTED_PAT = re.compile(
    r"not (currently |yet )?supported|not (yet )?implemented|does not (support|accept)|only works|only defined|"
    r"unsupported|is not defined for|only supports|can only|not compatible with this|no longer supported|"
    r"at the moment|currently, .* only works|expects two LinearOperators of the same size|are not positive definite|"
    r"should be LinearOperators or Tensors|must be a LinearOperator|does not allow a|only implemented for",
    re.I,
)


def explicit_unsupported(exc: Exc):
    """an explicit not-supported error: raised by a raise statement inside linear_operator,
    NotImplementedError or a declared-unsupported message (never one that calls itself a bug)"""
    if not exc.lib_raise:
        return False
    if "bug" in exc.msg.lower():
        return False
    if exc.type == "NotImplementedError":
        return True
    if exc.type in ("RuntimeError", "ValueError", "TypeError", "AttributeError", "NotPSDError") and _UNSUPPORTED_PAT.search(exc.msg):
        return True
    return False


def attempt(fn, *a, **k):
    """-> (result, None) or (None, Exc)"""
    try:
        return fn(*a, **k), None
    except Exception as e:  # noqa: BLE001 - the monitor classifies everything
        return None, Exc(e)
