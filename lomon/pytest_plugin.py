"""pytest plugin: runs the repository's own test-suite as a *workload* under the monitors (thorough tier of C01, C07, C08-C11, C17).

    VERIF_PLUGIN_MONITORS = comma list of {denote, bilinear, steps, settings}
    VERIF_PLUGIN_OUT      = directory receiving one JSON per pytest(-xdist) process

The tests' own assertions are irrelevant here; what is recorded is what the monitors observe while the tests drive the library with
THEIR inputs (other classes, sizes and call sequences than the zoo's): the denotation contract on every to_dense / _matmul / _t_matmul
call, the _bilinear_derivative post-condition on every call, the logical step bounds of the iterative kernels, and settings that are not
back at their defaults after a test."""
import collections
import json
import os
import warnings

import torch

MON = set(filter(None, os.environ.get("VERIF_PLUGIN_MONITORS", "denote,bilinear,steps,settings").split(",")))
OUT = os.environ.get("VERIF_PLUGIN_OUT")
CURRENT = [""]
_BUSY = [False]


class Sink:
    def __init__(self):
        self.oks = collections.Counter()
        self.classes = collections.Counter()
        self.fails = []
        self.nfail = collections.Counter()
        self.stats = collections.Counter()

    def ok(self, oracle, key=None, nontrivial=True, sample=None, near=None):
        self.oks[oracle] += 1

    def fail(self, oracle, mode, **k):
        sig = (oracle, mode, k.get("cls"), tuple(sorted(k.get("tags", ()))))
        self.nfail[sig] += 1
        if self.nfail[sig] <= 3 and len(self.fails) < 300:
            self.fails.append(dict(oracle=oracle, mode=mode, cls=k.get("cls") or "", tags=sorted(k.get("tags", ())), detail=str(k.get("detail"))[:300],
                                   err=k.get("err"), test=CURRENT[0]))

    def stat(self, name, k=1):
        self.stats[name] += k

    def inconclusive(self, why):
        self.stats["inconclusive:" + why] += 1


SINK = Sink()


def _tol(dt):
    return 1e-8 if dt == torch.float64 else (2e-3 if dt == torch.float32 else 5e-2)


def _install_denote():
    import linear_operator.operators as O
    from linear_operator.operators._linear_operator import LinearOperator

    from . import model

    def check(self, name, args, res):
        try:
            D = model.denote(self)
        except model.Unknown:
            SINK.stat("class_outside_model:" + type(self).__name__)
            return
        except Exception as e:  # noqa: BLE001 - an operator the model cannot evaluate (deliberately malformed test inputs)
            SINK.stat("model_failed:" + type(self).__name__ + ":" + type(e).__name__)
            return
        if D.numel() > 200000 or not D.dtype.is_floating_point:
            SINK.stat("too_large_or_not_float")
            return
        cname = type(self).__name__
        if name == "to_dense":
            got, want = res, D
        else:
            rhs = args[0]
            if not torch.is_tensor(rhs) or not rhs.dtype.is_floating_point:
                return
            try:
                want = (D if name == "_matmul" else D.mT).to(rhs.dtype) @ rhs
            except Exception:  # noqa: BLE001
                SINK.stat("reference_rejects_rhs")
                return
            got = res
        if not torch.is_tensor(got):
            return
        if tuple(got.shape) != tuple(want.shape):
            try:
                want = want.expand(got.shape)
            except RuntimeError:
                SINK.fail("suite.denote." + name, "shape", cls=cname, detail=f"got {tuple(got.shape)} want {tuple(want.shape)}")
                return
        g, w = got.detach().to(torch.float64), want.detach().to(torch.float64)
        sc = float(w.abs().max()) + 1e-30
        err = float((g - w).abs().max()) / sc if g.numel() else 0.0
        if not err <= _tol(got.dtype) * 50:
            SINK.fail("suite.denote." + name, "value", cls=cname, err=err, detail=f"{cname}.{name} differs from the dense model by {err:.2e}")
        else:
            SINK.ok("suite.denote." + name)
            SINK.classes[cname] += 1

    seen = set()
    for n in dir(O):
        c = getattr(O, n)
        if not isinstance(c, type) or not issubclass(c, LinearOperator) or c in seen:
            continue
        seen.add(c)
        for name in ("to_dense", "_matmul", "_t_matmul"):
            f = c.__dict__.get(name)
            if f is None or getattr(f, "_lomon", False):
                continue

            def make(f, name):
                def wrapped(self, *a, **k):
                    res = f(self, *a, **k)
                    if not _BUSY[0]:
                        _BUSY[0] = True
                        try:
                            with torch.no_grad(), warnings.catch_warnings():
                                warnings.simplefilter("ignore")
                                check(self, name, a, res)
                        except Exception as e:  # noqa: BLE001
                            SINK.stat("monitor_error:" + type(e).__name__)
                        finally:
                            _BUSY[0] = False
                    return res

                wrapped._lomon = True
                wrapped.__name__ = getattr(f, "__name__", name)
                wrapped.__doc__ = getattr(f, "__doc__", None)
                return wrapped

            setattr(c, name, make(f, name))


def _install_bilinear():
    from .props import c07

    c07.setup(SINK)
    c07._CTX[0] = SINK
    c07._KW[0] = dict(cls="suite", path="suite", tags=set(), info=set())


class _Steps:
    """hook sink: logical step bounds of the iterative kernels (recorded, never raised into the test)"""

    def __init__(self):
        from .monitors.hooks import Recorder

        self.rec = Recorder(keep=("cg",), clone=False, max_events=4)

    def __call__(self, event, payload):
        from .monitors.hooks import StepBoundExceeded

        SINK.stats["hook:" + event] += 1
        try:
            if event == "cg.begin":
                self.rec.events = []
            self.rec(event, payload)
        except StepBoundExceeded as e:
            SINK.fail("suite.step_bound", "value", cls=event.split(".")[0], detail=str(e))


def pytest_configure(config):
    # (not env.setup(): it silences warnings process-wide, and tests assert on NumericalWarnings)
    if os.environ.get("LINEAR_OPERATOR_VERIF") != "1":
        raise RuntimeError("LINEAR_OPERATOR_VERIF=1 must be exported before pytest starts")
    torch.set_num_threads(1)
    if "denote" in MON:
        _install_denote()
    if "bilinear" in MON:
        _install_bilinear()
    if "steps" in MON:
        from linear_operator.utils import _verif

        _verif.register(_Steps())
    if "settings" in MON:
        from .monitors import settings_guard

        settings_guard.init()


def pytest_runtest_setup(item):
    CURRENT[0] = item.nodeid[-160:]
    if "bilinear" in MON:
        from .props import c07

        c07._KW[0] = dict(cls="suite", path=CURRENT[0], tags=set(), info=set())


def pytest_runtest_teardown(item, nextitem):
    if "settings" in MON:
        from .monitors import settings_guard

        leak = settings_guard.check_and_reset()
        if leak:
            SINK.fail("suite.settings_default_after_test", "leak", cls="settings", tags=sorted(k.split(".")[0] for k in leak), detail=leak)
        else:
            SINK.ok("suite.settings_default_after_test")


def pytest_sessionfinish(session, exitstatus):
    if not OUT:
        return
    os.makedirs(OUT, exist_ok=True)
    wid = os.environ.get("PYTEST_XDIST_WORKER", "main")
    doc = dict(oks=SINK.oks, fails=SINK.fails, nfail={"|".join(map(str, k)): v for k, v in SINK.nfail.items()}, stats=SINK.stats, classes=SINK.classes)
    with open(os.path.join(OUT, f"{wid}.json"), "w") as f:
        json.dump(doc, f, default=str)
