"""Known findings: parsing, matching, fingerprints (DESIGN 4.2-4.3).  Read-only at run time."""
import json
import os

from .env import VERIF

PATH = os.path.join(VERIF, "known_findings.txt")

FP_FIELDS = ("prop", "oracle", "mode", "exc", "frame", "cls")


def fingerprint(rec):
    tags = ",".join(sorted(rec.get("tags") or []))
    return "|".join(str(rec.get(f, "")) for f in FP_FIELDS) + "|" + tags


def load(path=PATH):
    """lines:  finding: property=C03 match={json} :: text      (open, suppresses matching records)
               fixed: property=C03 <commit> <text>             (suppresses nothing)"""
    out = []
    if not os.path.exists(path):
        return out
    for ln in open(path):
        ln = ln.strip()
        if not ln or ln.startswith("#"):
            continue
        if ln.startswith("finding:"):
            head, _, text = ln[len("finding:") :].partition("::")
            head = head.strip()
            prop = head.split()[0].split("=", 1)[1]
            m = head[head.index("match=") + 6 :].strip()
            for pr in prop.split(","):  # one mechanism may surface under several properties
                out.append(dict(prop=pr, match=json.loads(m), text=text.strip()))
    return out


def _match_one(key, want, rec):
    if key == "tags":  # all listed tags present
        have = set(rec.get("tags") or [])
        return all(t in have for t in want)
    if key == "any_tag":
        have = set(rec.get("tags") or [])
        return any(t in have for t in want)
    if key == "not_tags":
        have = set(rec.get("tags") or [])
        return not any(t in have for t in want)
    if key == "info":
        have = set(rec.get("info") or [])
        return all(t in have for t in want)
    if key == "has_cls":
        have = set(rec.get("classes") or [])
        return any(t in have for t in want)
    if key == "msg_contains":
        return want in (rec.get("msg") or "")
    if key == "path_contains":
        return want in (rec.get("path") or "")
    if key == "tb_contains":  # some library frame of the traceback (file:function:line) contains the string
        return any(want in fr for fr in (rec.get("tb") or []))
    have = rec.get(key)
    if isinstance(want, list):
        return have in want
    return have == want


def match(rec, findings):
    """index of first open finding matching rec, or None"""
    for i, f in enumerate(findings):
        if f["prop"] != rec.get("prop"):
            continue
        if all(_match_one(k, v, rec) for k, v in f["match"].items()):
            return i
    return None
