"""Runs the repository's test-suite under the monitors of lomon.pytest_plugin and feeds what they observed into a property's Ctx
(thorough tier, shard 0 only)."""
import glob
import json
import os
import shutil
import subprocess
import time

VERIF = os.path.dirname(os.path.dirname(os.path.abspath(__file__)))
PY = "/venv/bin/python"


def run(monitors, jobs=6, timeout=1500):
    out = os.path.join(VERIF, ".run", f"suite-{monitors.replace(',', '+')}-{os.getpid()}")
    shutil.rmtree(out, ignore_errors=True)
    os.makedirs(out, exist_ok=True)
    env = dict(os.environ, VERIF_PLUGIN_MONITORS=monitors, VERIF_PLUGIN_OUT=out, LINEAR_OPERATOR_VERIF="1", OMP_NUM_THREADS="1", MKL_NUM_THREADS="1",
               PYTHONPATH=VERIF + os.pathsep + "/repo" + os.pathsep + os.environ.get("PYTHONPATH", ""))
    t0 = time.time()
    try:
        p = subprocess.run([PY, "-m", "pytest", "-q", "-p", "no:cacheprovider", "-p", "lomon.pytest_plugin", "-n", str(jobs), "test/"], cwd="/repo", env=env,
                           capture_output=True, text=True, timeout=timeout)
        tail = p.stdout.strip().splitlines()[-1] if p.stdout.strip() else p.stderr[-300:]
    except subprocess.TimeoutExpired:
        tail = "TIMEOUT"
    tot = dict(oks={}, stats={}, classes={}, fails=[], nfail={}, pytest=tail, wall=time.time() - t0)
    for f in glob.glob(os.path.join(out, "*.json")):
        d = json.load(open(f))
        for k in ("oks", "stats", "classes", "nfail"):
            for a, b in d[k].items():
                tot[k][a] = tot[k].get(a, 0) + b
        tot["fails"].extend(d["fails"])
    shutil.rmtree(out, ignore_errors=True)
    return tot


def ingest(ctx, monitors, prefix):
    """run the suite under `monitors`; oracle names starting with `prefix` are fed into ctx"""
    if ctx.tier != "thorough" or ctx.shard != 0:
        return
    tot = run(monitors)
    ctx.stat("suite_runs")
    ctx.stat("suite_pytest:" + str(tot["pytest"])[:80])
    if tot["pytest"] == "TIMEOUT":
        ctx.inconclusive("repository suite under monitors timed out")
        return
    n = 0
    for o, c in tot["oks"].items():
        if o.startswith(prefix) or o == "bilinear_contract":
            for _ in range(min(c, 1)):
                ctx.ok(o, "suite", True)
            ctx.oracles[o] += c - 1
            ctx.evals += c - 1
            n += c
    for cname, c in tot["classes"].items():
        ctx.keys[f"{prefix}|{cname}"] += c
    ctx.stat("suite_monitor_evaluations", n)
    for k, v in tot["stats"].items():
        if k.startswith(("hook:", "class_outside_model", "monitor_error", "model_failed", "bilinear")):
            ctx.stat("suite:" + k, v)
    for f in tot["fails"]:
        if f["oracle"].startswith(prefix) or f["oracle"] == "bilinear_contract":
            ctx.fail(f["oracle"], f["mode"], cls=f.get("cls", ""), path="suite:" + f.get("test", "")[-80:], tags=set(f.get("tags", [])) | {"workload:suite"},
                     err=f.get("err"), detail=f.get("detail"), case=dict(test=f.get("test")))
