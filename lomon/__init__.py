"""lomon: runtime-monitoring framework for linear_operator (see /verif/DESIGN.md)."""
