"""Process environment for every check worker: interpreter pinning, guard variable, threads, seeds."""
import os
import sys

REPO = os.environ.get("LOMON_REPO", "/repo")
VERIF = os.path.dirname(os.path.dirname(os.path.abspath(__file__)))
GUARD = "LINEAR_OPERATOR_VERIF"
PY = "/venv/bin/python"


def setup():
    """Called first thing in every worker, before torch / linear_operator are imported."""
    os.environ[GUARD] = "1"
    os.environ.setdefault("OMP_NUM_THREADS", "1")
    os.environ.setdefault("MKL_NUM_THREADS", "1")
    os.environ.setdefault("PYTHONHASHSEED", "0")
    if REPO not in sys.path:
        sys.path.insert(0, REPO)
    deps = os.path.join(VERIF, ".deps")
    if os.path.isdir(deps) and deps not in sys.path:
        sys.path.append(deps)
    import warnings

    warnings.filterwarnings("ignore")
    import torch

    torch.set_num_threads(1)
    import linear_operator  # noqa: F401

    src = os.path.realpath(os.path.dirname(linear_operator.__file__))
    want = os.path.realpath(os.path.join(REPO, "linear_operator"))
    if src != want:
        raise RuntimeError(f"linear_operator imported from {src}, expected {want}")
    return torch
