"""Typed, seeded generator of operator specs and their builder.

A spec is a JSON-serialisable dict
    {cls, kind, n, m, batch, dtype, seed, opt, children}
Every leaf tensor is drawn from a torch.Generator seeded with spec["seed"], so
any case is replayable from its spec alone.  build(spec) returns the live
operator together with the dense matrix computed *from the same raw tensors*
with the helpers of model.py (never through the operator).
"""
import math
import random

import torch

from . import model

DT = {"f32": torch.float32, "f64": torch.float64}
KINDS = ("rect", "square", "sym", "psd", "pd", "tril", "triu")
_IMPLIES = {
    "pd": {"pd", "psd", "sym", "square", "rect"},
    "psd": {"psd", "sym", "square", "rect"},
    "sym": {"sym", "square", "rect"},
    "square": {"square", "rect"},
    "rect": {"rect"},
    "tril": {"tril", "square", "rect"},
    "triu": {"triu", "square", "rect"},
}


def satisfies(have, want):
    return want in _IMPLIES[have]


class Built:
    __slots__ = ("op", "dense", "tensors", "spec", "kind")

    def __init__(self, op, dense, tensors, spec):
        self.op = op
        self.dense = dense
        self.tensors = tensors  # list of (name, caller-owned tensor)
        self.spec = spec
        self.kind = spec["kind"]


# ------------------------------------------------------------------ raw tensors
def _randn(g, *shape):
    return torch.randn(tuple(shape), generator=g, dtype=torch.float64)


def _rand(g, *shape):
    return torch.rand(tuple(shape), generator=g, dtype=torch.float64)


def spectrum(g, n, batch, kappa, family):
    """eigenvalues in [lo, lo*kappa], lo = 0.5"""
    lo = 0.5
    if n == 1:
        return lo * (1 + _rand(g, *batch, 1) * (kappa - 1))
    if family == "geometric":
        t = torch.linspace(0, 1, n, dtype=torch.float64)
        lam = lo * kappa**t
        lam = lam.expand(*batch, n) * (1 + 0.01 * _rand(g, *batch, n))
    elif family == "clustered":
        k = max(1, n // 3)
        lam = torch.cat(
            [lo * (1 + 0.05 * _rand(g, *batch, n - k)), lo * kappa * (1 - 0.05 * _rand(g, *batch, k))], -1
        )
    else:  # uniform
        lam = lo * (1 + _rand(g, *batch, n) * (kappa - 1))
        lam[..., 0] = lo
        lam[..., -1] = lo * kappa
    return lam


def pd_matrix(g, n, batch, kappa=20.0, family="uniform"):
    q, _ = torch.linalg.qr(_randn(g, *batch, n, n))
    lam = spectrum(g, n, batch, kappa, family)
    a = (q * lam.unsqueeze(-2)) @ q.mT
    return (a + a.mT) / 2


def psd_lowrank(g, n, batch, r):
    f = _randn(g, *batch, n, r)
    return f @ f.mT


def raw_matrix(g, kind, n, m, batch, opt):
    if kind == "pd":
        return pd_matrix(g, n, batch, opt.get("kappa", 20.0), opt.get("family", "uniform"))
    if kind == "psd":
        r = opt.get("rank", max(1, n - 1))
        return psd_lowrank(g, n, batch, r)
    if kind == "sym":
        a = _randn(g, *batch, n, n)
        return (a + a.mT) / 2
    if kind in ("tril", "triu"):
        a = _randn(g, *batch, n, n) * 0.5
        a = torch.tril(a, -1) + torch.diag_embed(1.0 + _rand(g, *batch, n))
        return a if kind == "tril" else a.mT.contiguous()
    return _randn(g, *batch, n, m)


def layout(t, how, g):
    """re-house tensor t in a hostile layout with identical values"""
    if how == "transposed" and t.dim() >= 2:
        return t.mT.contiguous().mT
    if how == "slice":
        big = torch.full((t.numel() + 7,), 12345.0, dtype=t.dtype)
        if not t.dtype.is_floating_point:
            big = torch.full((t.numel() + 7,), 3, dtype=t.dtype)
        view = big[3 : 3 + t.numel()].view(t.shape)
        view.copy_(t)
        return view
    return t


# ------------------------------------------------------------------ spec helpers
def _child_seed(rng):
    return rng.randrange(1 << 30)


def factorizations(n):
    return [(a, n // a) for a in range(1, n + 1) if n % a == 0]


def nontrivial_factorizations(n):
    return [(a, b) for a, b in factorizations(n) if a > 1 and b > 1]


def sub_batches(batch, rng):
    """a batch shape that broadcasts to `batch` (possibly with size-1 / missing leading dims)"""
    batch = list(batch)
    if not batch:
        return []
    r = rng.random()
    if r < 0.6:
        return batch
    if r < 0.8:
        i = rng.randrange(len(batch))
        b = list(batch)
        b[i] = 1
        return b
    # drop leading dimensions - possibly all of them (a plain non-batch term next to batched ones)
    return batch[rng.randint(1, len(batch)):]


class OpClass:
    name = None
    leaf = True
    min_n = 1
    dtypes = ("f32", "f64")

    def offer(self, kind, n, m, batch, depth):
        """kind this class would produce for the request, or None"""
        return None

    def make(self, rng, kind, n, m, batch, depth, dtype):
        return dict(cls=self.name, kind=kind, n=n, m=m, batch=list(batch), dtype=dtype, seed=_child_seed(rng), opt={}, children=[])

    def build(self, spec, g, kids):
        raise NotImplementedError


def _base(cls, kind, n, m, batch, dtype, rng, **opt):
    return dict(cls=cls, kind=kind, n=n, m=m, batch=list(batch), dtype=dtype, seed=_child_seed(rng), opt=opt, children=[])


REG = {}


def register(c):
    REG[c.name] = c()
    return c


def _O():
    from linear_operator import operators

    return operators


# hostile storage layouts for every leaf tensor handed to a constructor (C13): None | "transposed" | "slice" | "expanded"
LAYOUT = [None]


def _cast(t, spec):
    t = t.to(DT[spec["dtype"]]) if t.dtype.is_floating_point else t
    how = LAYOUT[0]
    if how == "expanded":
        if t.dim() >= 3 and t.shape[0] > 1:
            return t[:1].expand_as(t)  # all batch members share one member's storage (stride 0)
        return t
    if how in ("transposed", "slice"):
        return layout(t, how, None)
    return t


# ------------------------------------------------------------------ leaf classes
@register
class Dense(OpClass):
    name = "Dense"

    def offer(self, kind, n, m, batch, depth):
        if kind != "rect" and n != m:
            return None
        return kind

    def make(self, rng, kind, n, m, batch, depth, dtype):
        opt = {}
        if kind == "pd":
            opt = dict(kappa=rng.choice([2.0, 20.0, 200.0]), family=rng.choice(["uniform", "geometric", "clustered"]))
        if kind == "psd":
            opt = dict(rank=rng.choice([max(1, n - 1), max(1, n // 2), n + 1]))
        return _base(self.name, kind, n, m, batch, dtype, rng, **opt)

    def build(self, spec, g, kids):
        a = _cast(raw_matrix(g, spec["kind"], spec["n"], spec["m"], spec["batch"], spec["opt"]), spec)
        a = layout(a, spec["opt"].get("layout"), g)
        return _O().DenseLinearOperator(a), a, [("tensor", a)]


@register
class User(OpClass):
    """minimal user subclass: only _matmul, _size, _transpose_nonbatch"""

    name = "User"
    _cls = None

    def offer(self, kind, n, m, batch, depth):
        if kind != "rect" and n != m:
            return None
        return kind

    @classmethod
    def cls(cls):
        if cls._cls is None:
            O = _O()

            class UserLinearOperator(O.LinearOperator):
                def __init__(self, mat):
                    super().__init__(mat)
                    self._lomon_dense = mat

                def _matmul(self, rhs):
                    return torch.matmul(self._lomon_dense, rhs)

                def _size(self):
                    return self._lomon_dense.shape

                def _transpose_nonbatch(self):
                    return UserLinearOperator(self._lomon_dense.mT)

            cls._cls = UserLinearOperator
        return cls._cls

    def make(self, rng, kind, n, m, batch, depth, dtype):
        return Dense.make(self, rng, kind, n, m, batch, depth, dtype) | {"cls": self.name}

    def build(self, spec, g, kids):
        a = _cast(raw_matrix(g, spec["kind"], spec["n"], spec["m"], spec["batch"], spec["opt"]), spec)
        return self.cls()(a), a, [("mat", a)]


@register
class Diag(OpClass):
    name = "Diag"

    def offer(self, kind, n, m, batch, depth):
        if n != m or kind in ("tril", "triu"):
            return None
        return kind if kind in ("pd", "psd", "sym") else "sym"

    def build(self, spec, g, kids):
        n, batch = spec["n"], spec["batch"]
        k = spec["kind"]
        if k == "pd":
            d = 0.5 + 2 * _rand(g, *batch, n)
        elif k == "psd":
            d = 2 * _rand(g, *batch, n)
            d[..., 0] = 0.0
        else:
            d = _randn(g, *batch, n)
        d = _cast(d, spec)
        if spec["opt"].get("layout") == "expanded" and batch:
            d = d[(0,) * len(batch)].expand(*batch, n)
        return _O().DiagLinearOperator(d), torch.diag_embed(d), [("diag", d)]


@register
class ConstantDiag(OpClass):
    name = "ConstantDiag"

    def offer(self, kind, n, m, batch, depth):
        if n != m or kind in ("tril", "triu"):
            return None
        return "pd"

    def build(self, spec, g, kids):
        n, batch = spec["n"], spec["batch"]
        c = _cast(0.5 + 2 * _rand(g, *batch, 1), spec)
        return _O().ConstantDiagLinearOperator(c, diag_shape=n), torch.diag_embed(c.expand(*batch, n)), [("diag_values", c)]


@register
class Identity(OpClass):
    name = "Identity"

    def offer(self, kind, n, m, batch, depth):
        if n != m or kind in ("tril", "triu"):
            return None
        return "pd"

    def build(self, spec, g, kids):
        n, batch = spec["n"], spec["batch"]
        dt = DT[spec["dtype"]]
        op = _O().IdentityLinearOperator(n, batch_shape=torch.Size(batch), dtype=dt)
        return op, torch.eye(n, dtype=dt).expand(*batch, n, n), []


@register
class Zero(OpClass):
    name = "Zero"

    def offer(self, kind, n, m, batch, depth):
        if kind in ("pd", "tril", "triu"):
            return None
        if n != m:
            return "rect" if kind == "rect" else None
        return "psd"

    def build(self, spec, g, kids):
        n, m, batch = spec["n"], spec["m"], spec["batch"]
        dt = DT[spec["dtype"]]
        return _O().ZeroLinearOperator(*batch, n, m, dtype=dt), torch.zeros(*batch, n, m, dtype=dt), []


@register
class Toeplitz(OpClass):
    name = "Toeplitz"

    def offer(self, kind, n, m, batch, depth):
        if n != m or kind in ("tril", "triu", "psd"):
            return None
        return "pd" if kind == "pd" else "sym"

    def build(self, spec, g, kids):
        n, batch = spec["n"], spec["batch"]
        if spec["kind"] == "pd":
            c = _rand(g, *batch, n) * (0.8 / max(n - 1, 1))
            c[..., 0] = 1.5 + _rand(g, *batch)
        else:
            c = _randn(g, *batch, n)
        c = _cast(c, spec)
        return _O().ToeplitzLinearOperator(c), model.toeplitz_sym(c), [("column", c)]


@register
class Permutation(OpClass):
    name = "Permutation"
    dtypes = ("f32",)

    def offer(self, kind, n, m, batch, depth):
        if n != m or kind not in ("square", "rect"):
            return None
        return "square"

    def build(self, spec, g, kids):
        n, batch = spec["n"], spec["batch"]
        perm = torch.argsort(_rand(g, *batch, n), dim=-1)
        return _O().PermutationLinearOperator(perm), model.perm_matrix(perm), [("perm", perm)]


@register
class TransposePermutation(OpClass):
    name = "TransposePermutation"
    dtypes = ("f32",)

    def offer(self, kind, n, m, batch, depth):
        r = math.isqrt(n)
        if n != m or r * r != n or batch or kind not in ("square", "rect", "sym"):
            return None
        return "sym"

    def build(self, spec, g, kids):
        mm = math.isqrt(spec["n"])
        return _O().TransposePermutationLinearOperator(mm), model.commutation_matrix(mm), []


def _rbf(x1, x2, ls, jitter=0.0):
    d = (x1.unsqueeze(-2) - x2.unsqueeze(-3)) / ls.unsqueeze(-2)
    d2 = d.pow(2).sum(-1)
    return torch.exp(-0.5 * d2) + jitter * (d2 == 0).to(x1.dtype)


def _rbf_sel(x1, x2, ls, sel, jitter=0.0):
    """RBF kernel on the input dimensions listed in the integer tensor `sel` (... x k, broadcast over the batch)"""
    def take(x):
        idx = sel.unsqueeze(-2)
        d = max(idx.dim(), x.dim())
        return torch.take_along_dim(x.reshape(*([1] * (d - x.dim())), *x.shape), idx.reshape(*([1] * (d - idx.dim())), *idx.shape), dim=-1)

    return _rbf(take(x1), take(x2), ls, jitter)


@register
class Kernel(OpClass):
    name = "Kernel"

    def offer(self, kind, n, m, batch, depth):
        if kind in ("tril", "triu"):
            return None
        if kind == "rect" and n != m:
            return "rect"
        if n != m:
            return None
        return "pd" if kind == "pd" else "psd"

    def make(self, rng, kind, n, m, batch, depth, dtype):
        # int_kw: an integer keyword tensor (the active input dimensions) next to the floating hyper-parameters
        return _base(self.name, kind, n, m, batch, dtype, rng, int_kw=rng.random() < 0.4)

    def build(self, spec, g, kids):
        n, m, batch = spec["n"], spec["m"], spec["batch"]
        jit = 0.5 if spec["kind"] == "pd" else 0.0
        if spec["opt"].get("int_kw"):
            x1 = _cast(_randn(g, *batch, n, 3), spec)
            x2 = x1 if spec["kind"] != "rect" else _cast(_randn(g, *batch, m, 3), spec)
            ls = _cast(0.5 + _rand(g, *batch, 1, 2), spec)
            sel = torch.tensor([0, 2])
            op = _O().KernelLinearOperator(x1, x2, covar_func=_rbf_sel, num_nonbatch_dimensions={"sel": 1}, ls=ls, sel=sel, jitter=jit)
            tens = [("x1", x1), ("ls", ls)] + ([("x2", x2)] if x2 is not x1 else [])
            return op, _rbf_sel(x1, x2, ls, sel, jit), tens
        x1 = _cast(_randn(g, *batch, n, 2), spec)
        x2 = x1 if spec["kind"] != "rect" else _cast(_randn(g, *batch, m, 2), spec)
        ls = _cast(0.5 + _rand(g, *batch, 1, 2), spec)
        op = _O().KernelLinearOperator(x1, x2, covar_func=_rbf, ls=ls, jitter=jit)
        tens = [("x1", x1), ("ls", ls)] + ([("x2", x2)] if x2 is not x1 else [])
        return op, _rbf(x1, x2, ls, jit), tens


# ------------------------------------------------------------------ composite classes
class Composite(OpClass):
    leaf = False


def _gen(rng, kind, n, m, batch, depth, dtype, **kw):
    return gen_spec(rng, kind=kind, n=n, m=m, batch=batch, depth=depth, dtype=dtype, **kw)


@register
class Triangular(Composite):
    name = "Triangular"

    def offer(self, kind, n, m, batch, depth):
        if n != m or kind in ("sym", "psd", "pd"):
            return None
        return kind if kind in ("tril", "triu") else "tril"

    def make(self, rng, kind, n, m, batch, depth, dtype):
        # neg_diag: every other diagonal entry negative (L S with S = diag(+-1): the same L L^T, e.g. an unconstrained variational factor)
        neg = rng.random() < 0.2
        s = _base(self.name, kind, n, m, batch, dtype, rng, tensor_arg=neg or rng.random() < 0.5, **({"neg_diag": True} if neg else {}))
        if not s["opt"]["tensor_arg"]:
            s["children"] = [_gen(rng, kind, n, n, batch, 0, dtype, allow=["Dense"])]
        return s

    def build(self, spec, g, kids):
        upper = spec["kind"] == "triu"
        if spec["opt"]["tensor_arg"]:
            a = _cast(raw_matrix(g, spec["kind"], spec["n"], spec["n"], spec["batch"], {}), spec)
            if spec["opt"].get("neg_diag"):
                sg = torch.tensor([1.0 if j % 2 == 0 else -1.0 for j in range(spec["n"])], dtype=a.dtype)
                a = (a * sg.unsqueeze(-1) if upper else a * sg).contiguous()
            return _O().TriangularLinearOperator(a, upper=upper), a, [("tensor", a)]
        k = kids[0]
        return _O().TriangularLinearOperator(k.op, upper=upper), k.dense, k.tensors


@register
class Chol(Composite):
    name = "Chol"

    def offer(self, kind, n, m, batch, depth):
        if n != m or kind in ("tril", "triu"):
            return None
        return "pd"

    def make(self, rng, kind, n, m, batch, depth, dtype):
        upper = rng.random() < 0.15
        s = _base(self.name, "pd", n, m, batch, dtype, rng, upper=upper)
        s["children"] = [_gen(rng, "triu" if upper else "tril", n, n, batch, 1, dtype, allow=["Triangular"])]
        return s

    def build(self, spec, g, kids):
        k = kids[0]
        upper = spec["opt"]["upper"]
        op = _O().CholLinearOperator(k.op, upper=upper)
        d = k.dense.mT @ k.dense if upper else k.dense @ k.dense.mT
        return op, d, k.tensors


@register
class Root(Composite):
    name = "Root"

    def offer(self, kind, n, m, batch, depth):
        if n != m or kind in ("tril", "triu"):
            return None
        return "pd" if kind == "pd" else "psd"

    def make(self, rng, kind, n, m, batch, depth, dtype):
        kind = self.offer(kind, n, m, batch, depth)
        s = _base(self.name, kind, n, m, batch, dtype, rng)
        if kind == "pd":
            # a well-conditioned square factor (a PD child would square its condition number)
            if rng.random() < 0.35:
                # a square NON-triangular factor: a dense symmetric PD matrix of condition number 3 used as the root (A = R R^T = R^2)
                c = _gen(rng, "pd", n, n, batch, 0, dtype, allow=["Dense"])
                if c is not None and c["cls"] == "Dense":
                    c["opt"]["kappa"] = 3.0
                    s["children"] = [c]
                    return s
            s["children"] = [_gen(rng, "tril", n, n, batch, min(depth, 1), dtype)]
        else:
            r = rng.choice([1, 2, n, n + 1])
            s["children"] = [_gen(rng, "rect", n, r, batch, max(depth - 1, 0), dtype)]
        return s

    def build(self, spec, g, kids):
        k = kids[0]
        return _O().RootLinearOperator(k.op), k.dense @ k.dense.mT, k.tensors


@register
class LowRankRoot(Composite):
    name = "LowRankRoot"

    def offer(self, kind, n, m, batch, depth):
        if n != m or kind in ("tril", "triu", "pd"):
            return None
        return "psd"

    def make(self, rng, kind, n, m, batch, depth, dtype):
        s = _base(self.name, "psd", n, m, batch, dtype, rng)
        r = rng.choice([1, 2, max(1, n - 1)])
        s["children"] = [_gen(rng, "rect", n, r, batch, 0, dtype, allow=["Dense"])]
        return s

    def build(self, spec, g, kids):
        k = kids[0]
        return _O().LowRankRootLinearOperator(k.op), k.dense @ k.dense.mT, k.tensors


def _diag_child(rng, n, batch, dtype, classes=("Diag", "ConstantDiag")):
    return _gen(rng, "pd", n, n, batch, 0, dtype, allow=[rng.choice(list(classes))])


@register
class LowRankRootAddedDiag(Composite):
    name = "LowRankRootAddedDiag"

    def offer(self, kind, n, m, batch, depth):
        if n != m or kind in ("tril", "triu"):
            return None
        return "pd"

    def make(self, rng, kind, n, m, batch, depth, dtype):
        s = _base(self.name, "pd", n, m, batch, dtype, rng)
        s["children"] = [
            _gen(rng, "psd", n, n, batch, 1, dtype, allow=["LowRankRoot"]),
            # (an IdentityLinearOperator among the diagonals: its inverse / products are the argument itself)
            _diag_child(rng, n, batch, dtype, classes=("Diag", "ConstantDiag", "Diag", "ConstantDiag", "Identity")),
        ]
        return s

    def build(self, spec, g, kids):
        op = _O().LowRankRootAddedDiagLinearOperator(kids[0].op, kids[1].op)
        return op, kids[0].dense + kids[1].dense, kids[0].tensors + kids[1].tensors


@register
class Kron(Composite):
    name = "Kron"

    def offer(self, kind, n, m, batch, depth):
        if kind in ("tril", "triu"):
            return None
        fs = nontrivial_factorizations(n)
        if not fs:
            return None
        if kind == "rect":
            return "rect" if (n == m or nontrivial_factorizations(m) or m >= 1) else None
        return kind if n == m else None

    def make(self, rng, kind, n, m, batch, depth, dtype):
        s = _base(self.name, kind, n, m, batch, dtype, rng)
        a, b = rng.choice(nontrivial_factorizations(n))
        if kind == "rect":
            c, d = rng.choice(factorizations(m))
        else:
            c, d = a, b
        ck = kind
        s["children"] = [
            _gen(rng, ck, a, c, sub_batches(batch, rng), depth - 1, dtype),
            _gen(rng, ck, b, d, batch, depth - 1, dtype),
        ]
        if len(nontrivial_factorizations(b)) and kind != "rect" and rng.random() < 0.3:
            b1, b2 = rng.choice(nontrivial_factorizations(b))
            s["children"][1:] = [
                _gen(rng, ck, b1, b1, batch, 0, dtype),
                _gen(rng, ck, b2, b2, batch, 0, dtype),
            ]
        return s

    def build(self, spec, g, kids):
        op = _O().KroneckerProductLinearOperator(*[k.op for k in kids])
        d = kids[0].dense
        for k in kids[1:]:
            d = model.kron(d, k.dense)
        return op, d, sum([k.tensors for k in kids], [])


@register
class KronTri(Composite):
    name = "KronTri"

    def offer(self, kind, n, m, batch, depth):
        if n != m or not nontrivial_factorizations(n) or kind in ("sym", "psd", "pd"):
            return None
        return kind if kind in ("tril", "triu") else "tril"

    def make(self, rng, kind, n, m, batch, depth, dtype):
        kind = self.offer(kind, n, m, batch, depth)
        s = _base(self.name, kind, n, m, batch, dtype, rng)
        a, b = rng.choice(nontrivial_factorizations(n))
        s["children"] = [
            _gen(rng, kind, a, a, batch, 1, dtype, allow=["Triangular"]),
            _gen(rng, kind, b, b, batch, 1, dtype, allow=["Triangular"]),
        ]
        return s

    def build(self, spec, g, kids):
        op = _O().KroneckerProductTriangularLinearOperator(*[k.op for k in kids], upper=spec["kind"] == "triu")
        d = kids[0].dense
        for k in kids[1:]:
            d = model.kron(d, k.dense)
        return op, d, sum([k.tensors for k in kids], [])


@register
class KronDiag(Composite):
    name = "KronDiag"

    def offer(self, kind, n, m, batch, depth):
        if n != m or not nontrivial_factorizations(n) or kind in ("tril", "triu"):
            return None
        return "pd"

    def make(self, rng, kind, n, m, batch, depth, dtype):
        s = _base(self.name, "pd", n, m, batch, dtype, rng)
        a, b = rng.choice(nontrivial_factorizations(n))
        s["children"] = [_diag_child(rng, a, batch, dtype), _diag_child(rng, b, batch, dtype)]
        return s

    def build(self, spec, g, kids):
        op = _O().KroneckerProductDiagLinearOperator(*[k.op for k in kids])
        d = kids[0].dense
        for k in kids[1:]:
            d = model.kron(d, k.dense)
        return op, d, sum([k.tensors for k in kids], [])


@register
class KronAddedDiag(Composite):
    name = "KronAddedDiag"

    def offer(self, kind, n, m, batch, depth):
        if n != m or not nontrivial_factorizations(n) or kind in ("tril", "triu"):
            return None
        return "pd"

    def make(self, rng, kind, n, m, batch, depth, dtype):
        s = _base(self.name, "pd", n, m, batch, dtype, rng)
        kr = _gen(rng, "pd", n, n, batch, 1, dtype, allow=["Kron"])
        which = rng.choice(["Diag", "ConstantDiag", "KronDiag"])
        if which == "KronDiag":
            sizes = [c["n"] for c in kr["children"]]
            assert math.prod(sizes) == n
            dg = _base("KronDiag", "pd", n, n, batch, dtype, rng)
            dg["children"] = [_diag_child(rng, sz, batch, dtype) for sz in sizes]
        else:
            dg = _gen(rng, "pd", n, n, batch, 0, dtype, allow=[which])
        s["children"] = [kr, dg]
        return s

    def build(self, spec, g, kids):
        op = _O().KroneckerProductAddedDiagLinearOperator(kids[0].op, kids[1].op)
        return op, kids[0].dense + kids[1].dense, kids[0].tensors + kids[1].tensors


@register
class SumKron(Composite):
    name = "SumKron"

    def offer(self, kind, n, m, batch, depth):
        if n != m or not nontrivial_factorizations(n) or kind in ("tril", "triu"):
            return None
        return "pd"

    def make(self, rng, kind, n, m, batch, depth, dtype):
        s = _base(self.name, "pd", n, m, batch, dtype, rng)
        a, b = rng.choice(nontrivial_factorizations(n))
        ks = []
        for _ in range(2):
            k = _base("Kron", "pd", n, n, batch, dtype, rng)
            k["children"] = [
                _gen(rng, "pd", a, a, batch, 0, dtype, allow=["Dense"]),
                _gen(rng, "pd", b, b, batch, 0, dtype, allow=["Dense"]),
            ]
            ks.append(k)
        s["children"] = ks
        return s

    def build(self, spec, g, kids):
        op = _O().SumKroneckerLinearOperator(kids[0].op, kids[1].op)
        return op, kids[0].dense + kids[1].dense, kids[0].tensors + kids[1].tensors


@register
class AddedDiag(Composite):
    name = "AddedDiag"

    def offer(self, kind, n, m, batch, depth):
        if n != m or kind in ("tril", "triu"):
            return None
        return "pd" if kind in ("pd", "psd") else kind if kind == "sym" else "square"

    def make(self, rng, kind, n, m, batch, depth, dtype):
        k = self.offer(kind, n, m, batch, depth)
        s = _base(self.name, k, n, m, batch, dtype, rng)
        ck = "psd" if k == "pd" else k
        s["children"] = [
            _gen(rng, ck, n, n, sub_batches(batch, rng), depth - 1, dtype, deny=["Diag", "ConstantDiag", "Identity", "Zero", "KronDiag"]),
            _diag_child(rng, n, batch, dtype, classes=("Diag", "ConstantDiag", "Diag", "ConstantDiag", "Identity")),
        ]
        return s

    def build(self, spec, g, kids):
        op = _O().AddedDiagLinearOperator(kids[0].op, kids[1].op)
        return op, kids[0].dense + kids[1].dense, kids[0].tensors + kids[1].tensors


@register
class Sum(Composite):
    name = "Sum"

    def offer(self, kind, n, m, batch, depth):
        if kind in ("tril", "triu"):
            return None
        return kind if (kind == "rect" or n == m) else None

    def make(self, rng, kind, n, m, batch, depth, dtype):
        s = _base(self.name, kind, n, m, batch, dtype, rng)
        k = rng.choice([2, 2, 3])
        kinds = [kind] + [("psd" if kind == "pd" else kind)] * (k - 1)
        rng.shuffle(kinds)
        bs = [batch] + [sub_batches(batch, rng) for _ in range(k - 1)]
        rng.shuffle(bs)
        s["children"] = [_gen(rng, kk, n, m, bb, depth - 1, dtype) for kk, bb in zip(kinds, bs)]
        return s

    def build(self, spec, g, kids):
        op = _O().SumLinearOperator(*[k.op for k in kids])
        return op, sum(k.dense for k in kids), sum([k.tensors for k in kids], [])


@register
class PsdSum(Sum):
    name = "PsdSum"

    def offer(self, kind, n, m, batch, depth):
        if n != m or kind in ("tril", "triu"):
            return None
        return "pd" if kind == "pd" else "psd"

    def make(self, rng, kind, n, m, batch, depth, dtype):
        s = Sum.make(self, rng, self.offer(kind, n, m, batch, depth), n, m, batch, depth, dtype)
        s["cls"] = self.name
        return s

    def build(self, spec, g, kids):
        op = _O().PsdSumLinearOperator(*[k.op for k in kids])
        return op, sum(k.dense for k in kids), sum([k.tensors for k in kids], [])


@register
class Matmul(Composite):
    name = "Matmul"

    def offer(self, kind, n, m, batch, depth):
        if kind in ("rect",):
            return "rect"
        if kind == "square" and n == m:
            return "square"
        if kind in ("psd", "pd") and n == m:
            return kind
        return None

    def make(self, rng, kind, n, m, batch, depth, dtype):
        s = _base(self.name, kind, n, m, batch, dtype, rng)
        if kind in ("psd", "pd"):
            # R @ R^T with the right factor an independent operator holding R^T
            r = n if kind == "pd" else rng.choice([1, max(1, n - 1)])
            s["opt"]["gram"] = True
            s["children"] = [_gen(rng, "tril" if kind == "pd" else "rect", n, r, batch, 0, dtype, allow=["Dense"])]
            return s
        k = rng.choice([1, 2, 3, n])
        s["children"] = [
            _gen(rng, "rect", n, k, sub_batches(batch, rng), depth - 1, dtype),
            _gen(rng, "rect", k, m, batch, depth - 1, dtype),
        ]
        return s

    def build(self, spec, g, kids):
        O = _O()
        if spec["opt"].get("gram"):
            r = kids[0].dense
            rt = r.mT.contiguous()
            op = O.MatmulLinearOperator(kids[0].op, O.DenseLinearOperator(rt))
            return op, r @ rt, kids[0].tensors + [("right", rt)]
        op = O.MatmulLinearOperator(kids[0].op, kids[1].op)
        return op, kids[0].dense @ kids[1].dense, kids[0].tensors + kids[1].tensors


@register
class Mul(Composite):
    name = "Mul"

    def offer(self, kind, n, m, batch, depth):
        if n != m or kind in ("tril", "triu"):
            return None
        return "pd" if kind == "pd" else "psd"

    def make(self, rng, kind, n, m, batch, depth, dtype):
        kind = self.offer(kind, n, m, batch, depth)
        s = _base(self.name, kind, n, m, batch, dtype, rng)
        # hadamard product of PD matrices is PD; children must be PD so that their
        # (Cholesky) root decompositions are exact
        s["children"] = [
            _gen(rng, "pd", n, n, batch, min(depth - 1, 1), dtype, deny=["Mul"]),
            _gen(rng, "pd", n, n, batch, min(depth - 1, 1), dtype, deny=["Mul"]),
        ]
        s["kind"] = "pd"
        return s

    def build(self, spec, g, kids):
        op = _O().MulLinearOperator(kids[0].op, kids[1].op)
        return op, kids[0].dense * kids[1].dense, kids[0].tensors + kids[1].tensors


@register
class ConstantMul(Composite):
    name = "ConstantMul"

    def offer(self, kind, n, m, batch, depth):
        if kind in ("tril", "triu"):
            return None
        return kind if (kind == "rect" or n == m) else None

    def make(self, rng, kind, n, m, batch, depth, dtype):
        neg = kind in ("rect", "square", "sym") and rng.random() < 0.5
        cb = rng.choice(["full", "scalar", "full", "scalar", "ones", "trailing"]) if batch else rng.choice(["full", "scalar"])
        s = _base(self.name, kind, n, m, batch, dtype, rng, neg=neg, cbatch=cb)
        s["children"] = [_gen(rng, kind, n, m, batch, depth - 1, dtype)]
        return s

    def build(self, spec, g, kids):
        cb = spec["opt"]["cbatch"]
        batch = list(spec["batch"])
        if cb == "scalar":
            batch = []
        elif cb == "ones":  # broadcasts against the operator's batch: first dimension kept, the others 1 (all 1 for a 1-d batch)
            batch = [batch[0]] + [1] * (len(batch) - 1) if len(batch) > 1 else [1]
        elif cb == "trailing":
            batch = batch[1:]
        c = 0.5 + _rand(g, *batch)
        if spec["opt"]["neg"]:
            c = -c
        c = _cast(c, spec)
        op = _O().ConstantMulLinearOperator(kids[0].op, c)
        return op, kids[0].dense * c.reshape(*c.shape, 1, 1), kids[0].tensors + [("constant", c)]


class _Block(Composite):
    def offer(self, kind, n, m, batch, depth):
        if n != m or kind in ("tril", "triu") or not [f for f in factorizations(n) if f[0] > 1]:
            return None
        return kind if kind != "rect" else "square"

    def make(self, rng, kind, n, m, batch, depth, dtype):
        kind = self.offer(kind, n, m, batch, depth)
        s = _base(self.name, kind, n, m, batch, dtype, rng)
        k, b = rng.choice([f for f in factorizations(n) if f[0] > 1])
        # position of the block dimension among the base's batch dimensions (the constructor's block_dim argument): last (the
        # default, -3) most of the time, otherwise anywhere - with two batch dimensions behind it block_dim reaches -5
        L = len(batch)
        pos = L if (L == 0 or rng.random() < 0.6) else rng.randrange(0, L + 1)
        s["opt"]["block_pos"] = pos
        s["children"] = [_gen(rng, kind, b, b, list(batch)[:pos] + [k] + list(batch)[pos:], depth - 1, dtype)]
        return s

    @staticmethod
    def _block_dim(spec):
        L = len(spec["batch"])
        pos = spec["opt"].get("block_pos", L)
        return pos, pos - (L + 1) - 2


@register
class BlockDiag(_Block):
    name = "BlockDiag"

    def build(self, spec, g, kids):
        pos, bd = self._block_dim(spec)
        op = _O().BlockDiagLinearOperator(kids[0].op) if bd == -3 else _O().BlockDiagLinearOperator(kids[0].op, block_dim=bd)
        return op, model.blockdiag(kids[0].dense.movedim(pos, len(spec["batch"]))), kids[0].tensors


@register
class BlockInterleaved(_Block):
    name = "BlockInterleaved"

    def build(self, spec, g, kids):
        pos, bd = self._block_dim(spec)
        op = _O().BlockInterleavedLinearOperator(kids[0].op) if bd == -3 else _O().BlockInterleavedLinearOperator(kids[0].op, block_dim=bd)
        return op, model.interleave(kids[0].dense.movedim(pos, len(spec["batch"]))), kids[0].tensors


@register
class SumBatch(Composite):
    name = "SumBatch"

    def offer(self, kind, n, m, batch, depth):
        if kind in ("tril", "triu"):
            return None
        return kind if (kind == "rect" or n == m) else None

    def make(self, rng, kind, n, m, batch, depth, dtype):
        s = _base(self.name, kind, n, m, batch, dtype, rng)
        k = rng.choice([1, 2, 3])
        L = len(batch)
        pos = L if (L == 0 or rng.random() < 0.6) else rng.randrange(0, L + 1)
        s["opt"]["block_pos"] = pos
        s["children"] = [_gen(rng, kind, n, m, list(batch)[:pos] + [k] + list(batch)[pos:], depth - 1, dtype)]
        return s

    def build(self, spec, g, kids):
        pos, bd = _Block._block_dim(spec)
        op = _O().SumBatchLinearOperator(kids[0].op) if bd == -3 else _O().SumBatchLinearOperator(kids[0].op, block_dim=bd)
        return op, kids[0].dense.sum(pos), kids[0].tensors


@register
class BatchRepeat(Composite):
    name = "BatchRepeat"

    def offer(self, kind, n, m, batch, depth):
        if kind in ("tril", "triu") or not batch:
            return None
        return kind if (kind == "rect" or n == m) else None

    def make(self, rng, kind, n, m, batch, depth, dtype):
        s = _base(self.name, kind, n, m, batch, dtype, rng)
        # base batch divides the target batch elementwise; base may have fewer batch dims
        mode = rng.choice(["nobatch", "divide", "ones"])
        if mode == "nobatch":
            bb, rep = [], list(batch)
        elif mode == "ones":
            bb, rep = [1] * len(batch), list(batch)
        else:
            bb, rep = [], []
            for b in batch:
                d = rng.choice([x for x in range(1, b + 1) if b % x == 0])
                bb.append(d)
                rep.append(b // d)
        s["opt"]["repeat"] = rep
        s["children"] = [_gen(rng, kind, n, m, bb, depth - 1, dtype, deny=["BatchRepeat"])]
        return s

    def build(self, spec, g, kids):
        rep = torch.Size(spec["opt"]["repeat"])
        d = kids[0].dense
        extra = len(rep) + 2 - d.dim()
        if extra > 0:
            d = d.reshape(*([1] * extra), *d.shape)
        return _O().BatchRepeatLinearOperator(kids[0].op, rep), d.repeat(*rep, 1, 1), kids[0].tensors


@register
class Cat(Composite):
    name = "Cat"
    min_n = 2

    def offer(self, kind, n, m, batch, depth):
        if kind in ("tril", "triu") or n < 2:
            return None
        if kind == "rect":
            return "rect"
        return kind if n == m else None

    def make(self, rng, kind, n, m, batch, depth, dtype):
        s = _base(self.name, kind, n, m, batch, dtype, rng)
        if kind in ("sym", "psd", "pd"):
            # block rows of one symmetric matrix
            s["opt"]["mode"] = "rows_of"
            s["opt"]["split"] = rng.randrange(1, n)
            s["children"] = [_gen(rng, kind, n, n, batch, 0, dtype, allow=["Dense"])]
            return s
        # any batch dimension of size >= 2 (the last one, -3, and - less often exercised upstream - the earlier ones)
        L = len(batch)
        dims = [-2] + ([-1] if m >= 2 else []) + [pos - L - 2 for pos in range(L) if batch[pos] >= 2]
        dim = rng.choice(dims)
        s["opt"]["mode"] = "cat"
        s["opt"]["dim"] = dim
        if dim == -2:
            # (a square first / last block - [S; B] - half of the time when the shape allows it: square blocks admit the structured
            # classes whose products return (views of) their argument)
            k = rng.choice([m, n - m]) if n > m and rng.random() < 0.5 else rng.randrange(1, n)
            shapes = [(k, m, batch), (n - k, m, batch)]
        elif dim == -1:
            k = rng.choice([n, m - n]) if m > n and rng.random() < 0.5 else rng.randrange(1, m)
            shapes = [(n, k, batch), (n, m - k, batch)]
        else:
            pos = dim + L + 2
            k = rng.randrange(1, batch[pos])
            shapes = [(n, m, list(batch[:pos]) + [k] + list(batch[pos + 1:])), (n, m, list(batch[:pos]) + [batch[pos] - k] + list(batch[pos + 1:]))]
        s["children"] = [
            _gen(rng, "rect", a, b, bb, depth - 1, dtype, deny=["Zero"] if i == 0 else [],
                 **(dict(allow=["Identity", "Diag", "ConstantDiag"]) if a == b and dim in (-1, -2) and rng.random() < 0.4 else {}))
            for i, (a, b, bb) in enumerate(shapes)
        ]
        return s

    def build(self, spec, g, kids):
        O = _O()
        dev = torch.device("cpu")
        if spec["opt"]["mode"] == "rows_of":
            a = kids[0].dense
            k = spec["opt"]["split"]
            top, bot = a[..., :k, :].contiguous(), a[..., k:, :].contiguous()
            op = O.CatLinearOperator(O.DenseLinearOperator(top), O.DenseLinearOperator(bot), dim=-2, output_device=dev)
            return op, torch.cat([top, bot], -2), [("top", top), ("bottom", bot)]
        dim = spec["opt"]["dim"]
        op = O.CatLinearOperator(*[k.op for k in kids], dim=dim, output_device=dev)
        return op, torch.cat([k.dense for k in kids], dim), sum([k.tensors for k in kids], [])


@register
class Interpolated(Composite):
    name = "Interpolated"

    def offer(self, kind, n, m, batch, depth):
        if kind in ("tril", "triu", "sym"):
            return None
        if kind == "rect":
            return "rect"
        return kind if n == m else None

    def make(self, rng, kind, n, m, batch, depth, dtype):
        s = _base(self.name, kind, n, m, batch, dtype, rng)
        if kind == "pd":
            # W = rows of a permutation: W K W^T is a principal submatrix of PD K
            p = n + rng.choice([0, 1, 2])
            s["opt"].update(mode="select", base_n=p)
            s["children"] = [_gen(rng, "pd", p, p, batch, depth - 1, dtype)]
        elif kind in ("psd", "square"):
            p = rng.choice([max(1, n - 1), n, n + 2])
            s["opt"].update(mode="same" if kind == "psd" else "general", base_n=p, base_m=p, k=rng.choice([1, 2, 3]))
            s["children"] = [_gen(rng, kind if kind == "psd" else "square", p, p, batch, depth - 1, dtype)]
        else:
            p, q = rng.choice([max(1, n - 1), n + 1]), rng.choice([max(1, m - 1), m + 1])
            s["opt"].update(mode="general", base_n=p, base_m=q, k=rng.choice([1, 2, 3]))
            s["children"] = [_gen(rng, "rect", p, q, batch, depth - 1, dtype)]
        s["opt"]["idx_batch"] = rng.choice(["expanded", "full"])
        return s

    def build(self, spec, g, kids):
        n, m, batch, o = spec["n"], spec["m"], spec["batch"], spec["opt"]
        ib = batch if o["idx_batch"] == "full" else []
        K = kids[0].dense

        def _ex(t):
            return t.expand(*batch, *t.shape[-2:]) if o["idx_batch"] != "full" else t

        if o["mode"] == "select":
            p = o["base_n"]
            li = torch.argsort(_rand(g, *ib, p), dim=-1)[..., :n].unsqueeze(-1).contiguous()
            lv = _cast(torch.ones(*ib, n, 1, dtype=torch.float64), spec)
            ri, rv = li, lv
        else:
            p, q, k = o["base_n"], o.get("base_m", o["base_n"]), o["k"]
            li = torch.randint(0, p, (*ib, n, k), generator=g)
            lv = _cast(_randn(g, *ib, n, k), spec)
            if o["mode"] == "same":
                ri, rv = li, lv
            else:
                ri = torch.randint(0, q, (*ib, m, k), generator=g)
                rv = _cast(_randn(g, *ib, m, k), spec)
        same = ri is li
        li, lv = _ex(li), _ex(lv)
        ri, rv = (li, lv) if same else (_ex(ri), _ex(rv))
        op = _O().InterpolatedLinearOperator(kids[0].op, li, lv, ri, rv)
        wl = model.interp_matrix(li, lv, K.shape[-2])
        wr = model.interp_matrix(ri, rv, K.shape[-1])
        tens = kids[0].tensors + [("left_interp_indices", li), ("left_interp_values", lv)]
        if ri is not li:
            tens += [("right_interp_indices", ri), ("right_interp_values", rv)]
        return op, wl @ K @ wr.mT, tens


@register
class Masked(Composite):
    name = "Masked"

    def offer(self, kind, n, m, batch, depth):
        if kind in ("tril", "triu"):
            return None
        return kind if (kind == "rect" or n == m) else None

    def make(self, rng, kind, n, m, batch, depth, dtype):
        s = _base(self.name, kind, n, m, batch, dtype, rng)
        p, q = n + rng.choice([0, 1, 2]), m + rng.choice([0, 1, 2])
        if kind != "rect":
            q = p
        s["opt"].update(base_n=p, base_m=q)
        s["children"] = [_gen(rng, kind, p, q, batch, depth - 1, dtype)]
        return s

    def build(self, spec, g, kids):
        n, m, o = spec["n"], spec["m"], spec["opt"]
        p, q = o["base_n"], o["base_m"]
        rm = torch.zeros(p, dtype=torch.bool)
        rm[torch.argsort(_rand(g, p))[:n]] = True
        if spec["kind"] == "rect":
            cm = torch.zeros(q, dtype=torch.bool)
            cm[torch.argsort(_rand(g, q))[:m]] = True
        else:
            cm = rm.clone()
        op = _O().MaskedLinearOperator(kids[0].op, rm, cm)
        return op, kids[0].dense[..., rm, :][..., :, cm], kids[0].tensors + [("row_mask", rm), ("col_mask", cm)]


# ------------------------------------------------------------------ generation
ALL_CLASSES = list(REG)
# ZeroLinearOperator stores python ints as positional arguments, so representation() of any
# operator containing one raises; TransposePermutationLinearOperator has no batch support (its batch_shape is
# always empty).  Both are generated nested only where a property asks for it (flag below).
NESTED_ZERO = [False]
LEAF_CLASSES = [n for n, c in REG.items() if c.leaf]


def gen_spec(rng, kind="square", n=4, m=None, batch=(), depth=2, dtype="f64", allow=None, deny=None, root=None):
    """random spec producing an operator of (at least) `kind`, shape (*batch, n, m)"""
    m = n if m is None else m
    batch = list(batch)
    names = [root] if root else (allow or ALL_CLASSES)
    cands = []
    for name in names:
        c = REG[name]
        if deny and name in deny:
            continue
        if dtype not in c.dtypes:
            continue
        if name in ("Zero", "TransposePermutation") and not root and not (allow and name in allow) and not NESTED_ZERO[0]:
            continue
        if depth <= 0 and not c.leaf and not (allow and name in allow) and not root:
            continue
        got = c.offer(kind, n, m, batch, depth)
        if got is not None and satisfies(got, kind):
            cands.append((name, got))
    if not cands:
        if root:
            return None
        cands = [("Dense", kind)]
    name, got = rng.choice(cands)
    s = REG[name].make(rng, got, n, m, batch, depth, dtype)
    return s


def build(spec):
    """-> Built; deterministic in spec"""
    kids = [build(c) for c in spec["children"]]
    g = torch.Generator().manual_seed(spec["seed"])
    op, dense, tens = REG[spec["cls"]].build(spec, g, kids)
    return Built(op, dense, tens, spec)


def class_path(spec, maxdepth=3):
    if not spec["children"] or maxdepth <= 1:
        return spec["cls"]
    return spec["cls"] + "(" + ",".join(class_path(c, maxdepth - 1) for c in spec["children"]) + ")"


def spec_classes(spec):
    out = {spec["cls"]}
    for c in spec["children"]:
        out |= spec_classes(c)
    return out


def spec_size(spec):
    return 1 + sum(spec_size(c) for c in spec["children"])


def rhs_tensor(rng, n, batch, dtype, kindhint=None, seed=None):
    """a right-hand side for an operator with `n` columns and batch shape `batch`
    -> (tensor, description)"""
    g = torch.Generator().manual_seed(seed if seed is not None else rng.randrange(1 << 30))
    batch = list(batch)
    kinds = ["vec", "mat", "mat1", "batched", "bcast_more", "bcast_one"]
    k = kindhint or rng.choice(kinds)
    cols = rng.choice([1, 2, 3])
    if k == "vec":
        shape = [n]
    elif k == "mat":
        shape = [n, cols]
    elif k == "mat1":
        shape = [n, 1]
    elif k == "batched":
        shape = batch + [n, cols]
    elif k == "bcast_more":
        shape = [2] + batch + [n, cols]
    else:
        shape = [1 if i == 0 else b for i, b in enumerate(batch)] + [n, cols] if batch else [1, n, cols]
    t = torch.randn(*shape, generator=g, dtype=torch.float64).to(DT[dtype])
    return t, k
