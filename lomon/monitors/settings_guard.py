"""Snapshot of every settings class's process-global state; used as a quiescent-point invariant
('all settings at their defaults after every case') by every property's worker and by C17."""
import inspect

_DEFAULTS = None


def classes():
    from linear_operator import settings

    out = []
    for name, obj in vars(settings).items():
        if inspect.isclass(obj) and obj.__module__ == settings.__name__:
            out.append((name, obj))
    return out


_ATTRS = ("_state", "_global_value", "_global_float_value", "_global_double_value", "_global_half_value")


def _plain(v):
    try:
        import torch

        if torch.is_tensor(v):
            return ("tensor", tuple(v.shape))
    except Exception:  # noqa: BLE001
        pass
    return v


def snapshot():
    """every piece of process-global state a settings class owns: the documented slots (_ATTRS) and any other plain class attribute
    (e.g. the probe-vector cache of deterministic_probes)"""
    snap = {}
    for name, c in classes():
        for a, v in c.__dict__.items():
            if a in _ATTRS:
                snap[f"{name}.{a}"] = v
            elif not a.startswith("__") and a != "_default":
                pv = _plain(v)
                if pv is None or isinstance(pv, (bool, int, float, str, tuple)):
                    snap[f"{name}.{a}"] = pv
    return snap


def init():
    global _DEFAULTS
    if _DEFAULTS is None:
        _DEFAULTS = snapshot()
    return _DEFAULTS


def check_and_reset():
    """-> dict of leaked settings (name -> (default, found)); state is put back to the defaults"""
    d = init()
    now = snapshot()
    leak = {k: (repr(d[k]), repr(v)) for k, v in now.items() if k in d and v != d[k]}
    if leak:
        by = dict(classes())
        for k in leak:
            n, a = k.split(".")
            setattr(by[n], a, d[k])
    return leak
