"""Snapshot of every settings class's process-global state; used as a quiescent-point invariant
('all settings at their defaults after every case') by every property's worker and by C17."""
import inspect

_DEFAULTS = None


def classes():
    from linear_operator import settings

    out = []
    for name, obj in vars(settings).items():
        if inspect.isclass(obj) and obj.__module__ == settings.__name__:
            out.append((name, obj))
    return out


_ATTRS = ("_state", "_global_value", "_global_float_value", "_global_double_value", "_global_half_value")


def snapshot():
    snap = {}
    for name, c in classes():
        for a in _ATTRS:
            if a in c.__dict__:
                snap[f"{name}.{a}"] = c.__dict__[a]
    return snap


def init():
    global _DEFAULTS
    if _DEFAULTS is None:
        _DEFAULTS = snapshot()
    return _DEFAULTS


def check_and_reset():
    """-> dict of leaked settings (name -> (default, found)); state is put back to the defaults"""
    d = init()
    now = snapshot()
    leak = {k: (repr(d[k]), repr(v)) for k, v in now.items() if k in d and v != d[k]}
    if leak:
        by = dict(classes())
        for k in leak:
            n, a = k.split(".")
            setattr(by[n], a, d[k])
    return leak
