"""Write-watchpoint sanitizer: a TorchDispatchMode that sees every ATen op the library executes (including those inside
torch.jit.script-ed helpers) and reports writes (schema arguments flagged is_write) into protected storages."""
import traceback

import torch
from torch.utils._python_dispatch import TorchDispatchMode

from ..compare import LIBDIR, in_lib

ALLOWED = {"aten::detach_", "aten::requires_grad_"}


class WriteSan(TorchDispatchMode):
    def __init__(self, protected):
        """protected: dict name -> tensor (caller-owned)"""
        super().__init__()
        self.ptr = {}
        for name, t in protected.items():
            try:
                if t.numel():
                    self.ptr.setdefault(t.untyped_storage().data_ptr(), name)
            except Exception:  # noqa: BLE001  (sparse tensors etc. have no storage: watched through their parts)
                pass
        self.hits = []
        self.ops = 0
        self.writes = 0

    def __torch_dispatch__(self, func, types, args=(), kwargs=None):
        kwargs = kwargs or {}
        self.ops += 1
        sch = getattr(func, "_schema", None)
        if sch is not None:
            for i, a in enumerate(sch.arguments):
                ai = a.alias_info
                if ai is not None and ai.is_write:
                    v = args[i] if i < len(args) else kwargs.get(a.name)
                    if isinstance(v, torch.Tensor):
                        self.writes += 1
                        try:
                            p = v.untyped_storage().data_ptr()
                        except Exception:  # noqa: BLE001
                            continue
                        name = self.ptr.get(p)
                        if name is not None and sch.name not in ALLOWED and a.name != "out":
                            fr = [f for f in traceback.extract_stack() if in_lib(f.filename)]
                            where = (fr[-1].filename.split(LIBDIR)[-1] + ":" + fr[-1].name) if fr else "outside"
                            self.hits.append((sch.name, name, where))
        return func(*args, **kwargs)


class Snapshot:
    """version counter, metadata and bytes of caller tensors before an operation"""

    def __init__(self, tensors):
        self.t = dict(tensors)
        self.meta = {}
        for k, v in self.t.items():
            if v.is_sparse:
                self.meta[k] = ("sparse", v._version if hasattr(v, "_version") else 0, v.shape, None, v.to_dense().clone())
            else:
                self.meta[k] = ("dense", v._version, tuple(v.shape), tuple(v.stride()), v.detach().clone())

    def changed(self):
        out = []
        for k, v in self.t.items():
            kind, ver, shape, stride, data = self.meta[k]
            if kind == "sparse":
                try:
                    now = v.to_dense()
                    if tuple(v.shape) != tuple(shape) or not torch.equal(torch.nan_to_num(now), torch.nan_to_num(data)):
                        out.append((k, "bytes"))
                except Exception as e:  # noqa: BLE001
                    out.append((k, "corrupted:" + type(e).__name__))
                continue
            if tuple(v.shape) != shape or tuple(v.stride()) != stride:
                out.append((k, "metadata"))
            elif not torch.equal(torch.nan_to_num(v.detach()), torch.nan_to_num(data)):
                out.append((k, "bytes"))
            elif v._version != ver:
                out.append((k, "version"))
        return out
