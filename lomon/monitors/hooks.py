"""Sink for the repository hooks (linear_operator/utils/_verif.py).  Clones what it is handed (the kernels update
those buffers in place) and enforces the logical step bound each loop documents."""
import torch


class StepBoundExceeded(Exception):
    pass


class Recorder:
    def __init__(self, keep=("cg", "lanczos", "minres", "pchol", "chol"), clone=True, max_events=20000):
        self.events = []
        self.counts = {}
        self.keep = tuple(keep)
        self.clone = clone
        self.max_events = max_events
        self.dropped = 0

    def __call__(self, event, payload):
        fam = event.split(".")[0]
        self.counts[event] = self.counts.get(event, 0) + 1
        # logical step bounds (a loop that stops terminating is caught on step counts, not wall clock)
        if event == "cg.iter":
            b = self._last("cg.begin")
            if b is not None and payload["k"] >= b["n_iter"]:
                raise StepBoundExceeded(f"cg.iter k={payload['k']} beyond n_iter={b['n_iter']}")
        elif event == "lanczos.iter" and payload["k"] >= payload["budget"]:
            raise StepBoundExceeded(f"lanczos.iter k={payload['k']} beyond budget={payload['budget']}")
        elif event == "minres.iter" and payload["i"] >= payload["max_iter"] + 2:
            raise StepBoundExceeded(f"minres.iter i={payload['i']} beyond max_iter+2={payload['max_iter'] + 2}")
        elif event == "pchol.iter" and payload["m"] >= payload["max_iter"]:
            raise StepBoundExceeded(f"pchol.iter m={payload['m']} beyond max_iter={payload['max_iter']}")
        elif event == "chol.try" and payload["i"] >= 0 and payload["i"] >= payload.get("max_tries", 10**9):
            raise StepBoundExceeded(f"chol.try i={payload['i']} beyond max_tries={payload['max_tries']}")
        if fam not in self.keep:
            return
        if len(self.events) >= self.max_events:
            self.dropped += 1
            return
        if self.clone:
            payload = {k: (v.detach().clone() if torch.is_tensor(v) else v) for k, v in payload.items()}
        self.events.append((event, payload))

    def _last(self, name):
        for ev, p in reversed(self.events):
            if ev == name:
                return p
        return None

    def of(self, name):
        return [p for ev, p in self.events if ev == name]

    def count(self, name):
        return self.counts.get(name, 0)

    def __enter__(self):
        from linear_operator.utils import _verif

        if not _verif.ENABLED:
            raise RuntimeError("hooks are disabled: LINEAR_OPERATOR_VERIF=1 must be set before importing linear_operator")
        _verif.register(self)
        return self

    def __exit__(self, *a):
        from linear_operator.utils import _verif

        _verif.unregister(self)
        return False
