"""Noise interposer: a TorchFunctionMode that replaces torch.randn.  Base draws of a sampler are served from a feed (unit vectors /
recorded draws); auxiliary draws (random Lanczos start vectors, randomized-SVD bases) are served from a fixed seeded stream so that the
factor R is the same matrix in every probing run."""
import sys

import torch
from torch.overrides import TorchFunctionMode

AUX_FRAMES = ("lanczos_tridiag", "_pivoted_cholesky", "_svd", "stable_qr")


def _shape_of(args):
    if len(args) == 1 and isinstance(args[0], (tuple, list, torch.Size)):
        return tuple(args[0])
    return tuple(int(a) for a in args)


class Noise(TorchFunctionMode):
    def __init__(self, feed=None, aux_seed=1234):
        super().__init__()
        self.feed = feed  # flat float64 vector holding all base noise of one sampler call, or None (zeros; shapes are recorded)
        self.pos = 0
        self.shapes = []
        self.aux_shapes = []
        self.aux_gen = torch.Generator().manual_seed(aux_seed)

    def __torch_function__(self, func, types, args=(), kwargs=None):
        kwargs = kwargs or {}
        if func is torch.randn:
            shape = _shape_of(args)
            dtype = kwargs.get("dtype") or torch.get_default_dtype()
            f = sys._getframe(1)
            aux = False
            depth = 0
            while f is not None and depth < 6:
                if f.f_code.co_name in AUX_FRAMES or (f.f_code.co_filename.endswith("lanczos.py")):
                    aux = True
                    break
                if f.f_code.co_name == "zero_mean_mvn_samples":
                    break
                f = f.f_back
                depth += 1
            if aux:
                self.aux_shapes.append(shape)
                return torch.randn(shape, generator=self.aux_gen, dtype=torch.float64).to(dtype)
            self.shapes.append(shape)
            n = 1
            for s in shape:
                n *= s
            if self.feed is None:
                return torch.zeros(shape, dtype=dtype)
            out = self.feed[self.pos : self.pos + n].reshape(shape).to(dtype)
            self.pos += n
            return out
        return func(*args, **kwargs)
