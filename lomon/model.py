"""Reference semantics: the dense (batched) matrix an operator denotes.

Only torch is used here; never a method of the operator under observation
(only its stored constructor arguments and documented public attributes).
This table plus torch is the trusted base of every value oracle.
"""
import torch


# ---------------------------------------------------------------- dense helpers
def kron(a, b):
    bs = torch.broadcast_shapes(a.shape[:-2], b.shape[:-2])
    a = a.expand(*bs, *a.shape[-2:])
    b = b.expand(*bs, *b.shape[-2:])
    out = torch.einsum("...ij,...kl->...ikjl", a, b)
    return out.reshape(*bs, a.shape[-2] * b.shape[-2], a.shape[-1] * b.shape[-1])


def blockdiag(b):
    """b: (..., k, n, m) -> (..., k n, k m) with out[a n + i, a m + j] = b[a, i, j]"""
    k, n, m = b.shape[-3], b.shape[-2], b.shape[-1]
    eye = torch.eye(k, dtype=b.dtype)
    out = torch.einsum("...aij,ac->...aicj", b, eye)
    return out.reshape(*b.shape[:-3], k * n, k * m)


def interleave(b):
    """b: (..., k, n, m) -> (..., n k, m k) with out[i k + a, j k + a] = b[a, i, j]"""
    k, n, m = b.shape[-3], b.shape[-2], b.shape[-1]
    eye = torch.eye(k, dtype=b.dtype)
    out = torch.einsum("...aij,ac->...iajc", b, eye)
    return out.reshape(*b.shape[:-3], n * k, m * k)


def toeplitz_sym(c):
    n = c.shape[-1]
    i = torch.arange(n)
    return c[..., (i[:, None] - i[None, :]).abs()]


def toeplitz_general(col, row):
    """T[i, j] = col[i - j] if i >= j else row[j - i]"""
    n = col.shape[-1]
    i = torch.arange(n)
    d = i[:, None] - i[None, :]
    lower = col[..., d.clamp(min=0)]
    upper = row[..., (-d).clamp(min=0)]
    return torch.where(d >= 0, lower, upper)


def interp_matrix(idx, val, m):
    """W (..., n, m) with W[i, idx[i, k]] += val[i, k] (duplicates add)"""
    bs = torch.broadcast_shapes(idx.shape[:-2], val.shape[:-2])
    idx = idx.expand(*bs, *idx.shape[-2:])
    val = val.expand(*bs, *val.shape[-2:])
    w = torch.zeros(*bs, idx.shape[-2], m, dtype=val.dtype)
    return w.scatter_add(-1, idx, val)


def perm_matrix(perm, dtype=torch.float32):
    """P with (P x)[i] = x[perm[i]], i.e. P[i, perm[i]] = 1"""
    n = perm.shape[-1]
    return torch.nn.functional.one_hot(perm, n).to(dtype)


def commutation_matrix(m, dtype=torch.float32):
    """K with K vec(X) = vec(X^T) for X (m, m) in row-major flattening"""
    idx = torch.arange(m * m).reshape(m, m).t().reshape(-1)
    return perm_matrix(idx, dtype)


# ---------------------------------------------------------------- live denotation
class Unknown(Exception):
    pass


_GRAD = [False]


def _dt(t):
    return t if _GRAD[0] else t.detach()


def denote(x, grad=False):
    """dense matrix denoted by a live operator (or tensor), from its constructor arguments"""
    old = _GRAD[0]
    _GRAD[0] = grad
    try:
        return _denote(x)
    finally:
        _GRAD[0] = old


def _denote(x):
    from linear_operator import operators as O

    if torch.is_tensor(x):
        return _dt(x)
    t = type(x)
    name = t.__name__
    a = x._args
    if hasattr(x, "_lomon_dense"):  # user subclasses defined by the workload
        return _dt(x._lomon_dense)
    if t is O.DenseLinearOperator:
        return _dt(a[0])
    if t is O.IdentityLinearOperator:
        n = x.diag_shape
        return torch.eye(n, dtype=x._dtype).expand(*x._batch_shape, n, n)
    if t is O.ConstantDiagLinearOperator:
        d = _dt(a[0])
        return torch.diag_embed(d.expand(*d.shape[:-1], x._kwargs["diag_shape"]))
    if t is O.DiagLinearOperator:
        return torch.diag_embed(_dt(a[0]))
    if t is O.ZeroLinearOperator:
        return torch.zeros(*a, dtype=x._dtype)
    if t is O.ToeplitzLinearOperator:
        return toeplitz_sym(_dt(a[0]))
    if t is O.TriangularLinearOperator:
        return _denote(a[0])
    if t is O.CholLinearOperator:
        r = _denote(x.root)
        return r.mT @ r if x.upper else r @ r.mT
    if t in (O.RootLinearOperator, O.LowRankRootLinearOperator):
        r = _denote(a[0])
        return r @ r.mT
    if t in (
        O.KroneckerProductLinearOperator,
        O.KroneckerProductTriangularLinearOperator,
        O.KroneckerProductDiagLinearOperator,
    ):
        out = _denote(a[0])
        for o in a[1:]:
            out = kron(out, _denote(o))
        return out
    if t in (
        O.SumLinearOperator,
        O.PsdSumLinearOperator,
        O.AddedDiagLinearOperator,
        O.LowRankRootAddedDiagLinearOperator,
        O.KroneckerProductAddedDiagLinearOperator,
        O.SumKroneckerLinearOperator,
    ):
        out = _denote(a[0])
        for o in a[1:]:
            out = out + _denote(o)
        return out
    if t is O.MatmulLinearOperator:
        return _denote(a[0]) @ _denote(a[1])
    if t is O.MulLinearOperator:
        return _denote(a[0]) * _denote(a[1])
    if t is O.ConstantMulLinearOperator:
        c = _dt(x._constant)
        return _denote(x.base_linear_op) * c.reshape(*c.shape, 1, 1)
    if t is O.BlockDiagLinearOperator:
        return blockdiag(_denote(x.base_linear_op))
    if t is O.BlockInterleavedLinearOperator:
        return interleave(_denote(x.base_linear_op))
    if t is O.SumBatchLinearOperator:
        return _denote(x.base_linear_op).sum(-3)
    if t is O.BatchRepeatLinearOperator:
        base = _denote(x.base_linear_op)
        rep = tuple(x.batch_repeat)
        extra = len(rep) + 2 - base.dim()
        if extra > 0:
            base = base.reshape(*([1] * extra), *base.shape)
        return base.repeat(*rep, 1, 1)
    if t is O.CatLinearOperator:
        return torch.cat([_denote(o) for o in x.linear_ops], dim=x.cat_dim)
    if t is O.InterpolatedLinearOperator:
        K = _denote(x.base_linear_op)
        wl = interp_matrix(x.left_interp_indices, _dt(x.left_interp_values), K.shape[-2])
        wr = interp_matrix(x.right_interp_indices, _dt(x.right_interp_values), K.shape[-1])
        return wl @ K @ wr.mT
    if t is O.MaskedLinearOperator:
        return _denote(x.base)[..., x.row_mask, :][..., :, x.col_mask]
    if name == "PermutationLinearOperator":
        return perm_matrix(x.perm, x._dtype)
    if name == "TransposePermutationLinearOperator":
        return commutation_matrix(x.m, x._dtype)
    if t in (O.KernelLinearOperator,) or name == "KeOpsLinearOperator":
        if name == "KeOpsLinearOperator":
            r = x.covar_func(_dt(x.x1), _dt(x.x2), **x.params)
        else:
            params = {k: _dt(v) for k, v in x.tensor_params.items()}
            r = x.covar_func(_dt(x.x1), _dt(x.x2), **params, **x.nontensor_params)
        return _denote(r)
    raise Unknown(name)
