"""C11 - MINRES solves all shifted systems; contour-integral quadrature gives the matrix root."""
import math
import random
import sys
import warnings

import torch

from .. import compare, zoo
from ..monitors.hooks import Recorder

BUDGET = {"quick": dict(seconds=40, cases=10**9), "thorough": dict(seconds=540, cases=10**9)}
RULE = ("cases: minres called directly on SPD matrices with prescribed spectra (kappa up to 1e4, n 1..24 quick / ..40 thorough), batch shapes, "
        "1-4 columns incl. zero columns and 1-D right-hand sides, shifts {none, 0-d, vector, batched}, preconditioners {none, Jacobi, exact "
        "inverse}, minres_tolerance {1e-4, 1e-8, 1e-14}, max_iter; contour_integral_quad / op.sqrt_inv_matmul(rhs[, lhs]) / "
        "linear_operator.sqrt_inv_matmul on SPD operators (n <= 20, kappa <= 1e3) with num_contour_quadrature {7, 15, 25}, with and "
        "without a pivoted-Cholesky preconditioner. oracle: over the minres.iter hook trace the true residual norm of every shifted "
        "system is non-increasing per column; the returned vector is within (1 + delta) of the least-squares optimum over the Krylov space "
        "of the dimension reached (unpreconditioned); the stop is consistent (update criterion met at a multiple of 10 iterations, or "
        "budget exhausted, relative residual <= 1e-9 kappa at full Krylov dimension); zero right-hand sides give exactly zero; "
        "x(c b) = c x(b); x(b1 + b2) = x(b1) + x(b2) at full dimension; leading shift dimension present iff several shifts, 1-D rhs gives "
        "1-D columns. quadrature: sum_q w_q solves_q = K^-1/2 b (K^1/2 b) against the dense symmetric root; sqrt_inv_matmul twice = A^-1 R; "
        "with lhs also diag(L A^-1 L^T); the update criterion on which MINRES stopped is recomputed from the recorded iterates (mean over "
        "all systems of ||x_i - x_(i-1)|| / ||x_i||), batches include members of very different scale; "
        " tolerance 1e-4 for kappa <= 1e2 or n <= 8, 3e-2 otherwise (8e-2 with 7 nodes). distinct key = (clause, spectrum "
        "family, kappa decade, shifts kind, preconditioner, dtype, batch rank) [added: residual within the stopping tolerance (30 tol kappa) once the update criterion is met - with ANY preconditioner for the unshifted system (with a preconditioner P the shifted recurrences solve (K + s P) x = b) - or at Krylov exhaustion for kappa <= 100] [round 4: exhaustion clause only without a preconditioner; sqrt_inv_matmul with 1-D right-hand sides, singleton batches, 1 x 1 operators, one-row left factors - shapes compared before values; L A^-1/2 R judged relative to ||L|| ||A^-1/2 R||] [round 5: sqrt_inv_matmul also on Diag / ConstantDiag / KroneckerProductDiag operators (classes that specialise it)]")
ASSUMPTIONS = ["float64 dense solves / symmetric matrix roots are the reference", "minres.* hook events expose the iterate per iteration",
               "delta = 1e-6 (f64) / 1e-2 (f32) on the Krylov-optimal residual, calibrated on the unchanged tree"]
REQUIRED_STATS = ("minres_runs", "minres_iter_events", "ciq_runs")


def _minres():
    import linear_operator.utils.minres  # noqa: F401

    return sys.modules["linear_operator.utils.minres"].minres


def gen_cases(ctx):
    rng = ctx.rng
    sizes = [1, 2, 3, 5, 8, 12, 16, 24] if ctx.tier == "quick" else [1, 2, 3, 5, 8, 16, 24, 32, 40]
    while True:
        mode = rng.choice(["minres", "minres", "minres", "ciq", "sqrt_inv_matmul"])
        dtype = rng.choice(["f64", "f64", "f32"]) if mode == "minres" else "f64"
        n = rng.choice(sizes) if mode == "minres" else rng.choice([2, 3, 5, 8, 12, 20] + ([1] if mode == "sqrt_inv_matmul" else []))
        kappa = rng.choice([1.0, 10.0, 1e2, 1e3] + ([1e4] if dtype == "f64" and mode == "minres" else []))
        # (sqrt_inv_matmul: also singleton batches, 1 x 1 operators, one-row left factors and 1-D right-hand sides - result shapes)
        yield dict(mode=mode, lhs_rows=rng.choice([1, 3]), n=n, batch=rng.choice([[], [], [2], [2, 2]] + ([[1], [1, 2]] if mode == "sqrt_inv_matmul" else [])), dtype=dtype, kappa=kappa, family=rng.choice(["uniform", "clustered", "geometric"]),
                   cols=rng.choice([1, 2, 4]), vec=rng.random() < 0.15, zero_col=rng.random() < 0.2, shifts=rng.choice(["none", "scalar", "vector", "batched"]),
                   precond=rng.choice([None, None, "jacobi", "exact"]), tol=rng.choice([1e-4, 1e-8, 1e-14]), max_iter=rng.choice([None, None, "n", "half"]),
                   nq=rng.choice([7, 15, 25]), inverse=rng.random() < 0.6, lhs=rng.random() < 0.4, precond_size=rng.choice([None, None, 2]),
                   clause=rng.choice(["trace", "trace", "scaling", "additivity"]), seed=rng.randrange(1 << 30),
                   mixed_scale=rng.random() < 0.25)


def _mat(case, g):
    dt = zoo.DT[case["dtype"]]
    A64 = zoo.pd_matrix(g, case["n"], case["batch"], kappa=case["kappa"], family=case["family"])
    if case.get("mixed_scale") and case["batch"] and case["mode"] == "minres":
        # systems solved together whose solutions differ by orders of magnitude: the first member is tiny and well conditioned
        idx = (0,) * len(case["batch"])
        A64[idx] = 1e-3 * zoo.pd_matrix(g, case["n"], [], kappa=1.2, family="uniform")
    A = A64.to(dt)
    A64 = A.to(torch.float64)
    return dt, A, (A64 + A64.mT) / 2


def _sym_fun(M, f):
    ev, V = torch.linalg.eigh(M)
    return (V * f(ev).unsqueeze(-2)) @ V.mT


def run_minres(case, ctx):
    from linear_operator import settings

    minres = _minres()
    g = torch.Generator().manual_seed(case["seed"])
    dt, A, A64 = _mat(case, g)
    n, batch = case["n"], case["batch"]
    eps = torch.finfo(dt).eps
    cols = case["cols"]
    vec = case["vec"] and not batch
    B = torch.randn(*batch, n, cols, generator=g, dtype=torch.float64)
    if case["zero_col"] and not vec:
        B[..., 0] = 0
    if vec:
        B = B[..., 0]
    B = B.to(dt)
    sk = case["shifts"]
    if sk == "none":
        sh = None
    elif sk == "scalar":
        sh = torch.tensor(0.7, dtype=dt)
    elif sk == "vector":
        sh = torch.tensor([0.0, 0.3, 2.0], dtype=dt)
    else:
        sh = (torch.rand(2, *batch, generator=g, dtype=torch.float64) * 2).to(dt)
    pk = case["precond"]
    pre = None
    if pk == "jacobi":
        d = A.diagonal(dim1=-2, dim2=-1).unsqueeze(-1)
        pre = lambda r: r / d  # noqa: E731
    elif pk == "exact":
        Ainv = torch.linalg.inv(A64).to(dt)
        pre = lambda r: Ainv @ r  # noqa: E731
    mi = {None: None, "n": n, "half": max(1, n // 2)}[case["max_iter"]]
    kdec = int(round(math.log10(case["kappa"])))
    kb = f"{case['family']}|k1e{kdec}|sh:{sk}|{pk or 'none'}|{case['dtype']}|b{len(batch)}"
    info = {case["dtype"], f"n{n}", case["family"], f"kappa1e{kdec}", "shifts:" + sk, f"tol{case['tol']:.0e}", f"max_iter:{case['max_iter']}"} | ({"batched"} if batch else set()) | ({"rhs:vec"} if vec else set())
    kw = dict(cls="minres", path=pk or "none", tags={"precond:" + (pk or "none")}, info=info)
    ctx.stat("minres_runs")

    def run(rhs):
        with settings.minres_tolerance(case["tol"]), Recorder(keep=("minres",), clone=True) as rec:
            out = minres(A.matmul, rhs, shifts=sh, max_iter=mi, preconditioner=pre)
        return out, rec

    res, ex = compare.attempt(run, B)
    if ex is not None:
        if ex.type == "StepBoundExceeded":
            ctx.fail("step_bound", "value", detail=ex.msg, **kw)
        else:
            ctx.fail("minres", "exception", exc=ex, **kw)
        return
    X, rec = res
    nsh = 1 if sh is None or sh.dim() == 0 else sh.shape[0]
    want_shape = ((nsh,) if nsh > 1 else ()) + tuple(batch) + ((n,) if vec else (n, cols))
    if tuple(X.shape) != want_shape:
        ctx.fail("output_shape", "shape", detail=f"got {tuple(X.shape)} want {want_shape} (shifts {sk}, rhs {'1-D' if vec else '2-D'})", **kw)
        return
    ctx.ok("output_shape", kb, n >= 2)
    if not torch.isfinite(X).all():
        ctx.fail("finite", "value", detail="non-finite solution", **dict(kw, tags=set(kw["tags"]) | ({"f32"} if dt == torch.float32 else set())))
        return
    iters = rec.of("minres.iter")
    ctx.stat("minres_iter_events", len(iters))
    # shifted operators (S, *batch, n, n)
    shv = torch.zeros(1, dtype=torch.float64) if sh is None else sh.to(torch.float64).reshape(nsh, *sh.shape[1:] if sh.dim() > 1 else ())
    if sh is not None and sh.dim() <= 1:
        shv = sh.to(torch.float64).reshape(nsh)
    eye = torch.eye(n, dtype=torch.float64)
    if shv.dim() == 1:
        S = A64.unsqueeze(0) + shv.reshape(nsh, *([1] * (A64.dim()))) * eye
    else:
        S = A64.unsqueeze(0) + shv.reshape(nsh, *batch, 1, 1) * eye
    B64 = (B if not vec else B.unsqueeze(-1)).to(torch.float64)
    bn = B64.norm(dim=-2, keepdim=True)
    zero = (bn < 1e-10)
    Bn = B64 / bn.masked_fill(zero, 1.0)  # the solver's normalised right-hand sides
    X64 = X.to(torch.float64)
    if vec:
        X64 = X64.unsqueeze(-1)
    if nsh == 1:
        X64 = X64.unsqueeze(0)
    # zero right-hand sides
    if bool(zero.any()):
        zc = zero.expand_as(B64[..., :1, :]).squeeze(-2)
        if float((X64 * zc.unsqueeze(-2).to(torch.float64)).abs().max()) != 0.0:
            ctx.fail("zero_rhs_gives_zero", "value", **kw)
        else:
            ctx.ok("zero_rhs_gives_zero", kb)
    kapS = float(torch.linalg.cond(S).max())
    # (a) residual norms along the trace are non-increasing (unpreconditioned MINRES minimises the 2-norm residual)
    live = (~zero).to(torch.float64)
    if pre is None and iters and kapS * eps < 1e-3:
        prev = None
        okm = True
        slack = 1e-7 if dt == torch.float64 else 1e-3
        for it in iters:
            xi = it["solution"].to(torch.float64)
            ri = (Bn.unsqueeze(0) - S @ torch.where(zero, torch.zeros_like(xi), xi)).norm(dim=-2, keepdim=True) * live  # zero columns hold 0/0 until the final masking
            if prev is not None and not bool((ri <= prev * (1 + slack) + slack * 1e-3 + 100 * kapS * eps).all()):
                ctx.fail("residual_monotone", "value", err=float((ri - prev).max()), detail=f"iteration {it['i']}: residual norm increased by {float((ri - prev).max()):.2e}", **kw)
                okm = False
                break
            prev = ri
        if okm:
            ctx.ok("residual_monotone", kb, n >= 2)
    # (b) Krylov optimality of the returned vector, (c) consistent stop
    end = rec.of("minres.end")
    kreached = end[0]["iterations"] if end else len(iters)
    convs = rec.of("minres.conv")
    stopped_by_tol = bool(convs) and convs[-1]["conv"] < convs[-1]["tolerance"] and convs[-1]["i"] + 1 == kreached
    budget = (min(mi, n + 1) if mi is not None else min(1000, n + 1)) + 2
    if not stopped_by_tol and kreached < budget:
        ctx.fail("stop_is_consistent", "value", detail=f"stopped after {kreached} iterations without meeting the update criterion (budget {budget})", **kw)
    else:
        ctx.ok("stop_is_consistent", kb + ("|tol" if stopped_by_tol else "|budget"), n >= 2)
    if stopped_by_tol and len(iters) >= 2 and iters[-1]["i"] == convs[-1]["i"] and iters[-2]["i"] == convs[-1]["i"] - 1:
        # the documented criterion, recomputed from the recorded iterates and not from the value the solver reports: the mean over
        # all systems (shifts x batch x columns) of ||x_i - x_{i-1}|| / ||x_i||
        xi, xp = iters[-1]["solution"].to(torch.float64), iters[-2]["solution"].to(torch.float64)
        mine = float(((xi - xp).norm(dim=-2) / xi.norm(dim=-2)).mean())
        # x_i - x_{i-1} is formed from rounded iterates (the solver norms the update before adding it): a factor, not an epsilon
        slack = 1.0 if dt == torch.float64 else 3.0
        if not mine < convs[-1]["tolerance"] * (1 + slack) + 1e-300:
            ctx.fail("stop_criterion_recomputed", "value", err=mine, detail=f"stopped on the update criterion at iteration {convs[-1]['i']} although the mean relative update of "
                     f"the systems is {mine:.3e} (tolerance {convs[-1]['tolerance']:.1e}; the solver reported {convs[-1]['conv']:.3e})", **kw)
        else:
            ctx.ok("stop_criterion_recomputed", kb, n >= 2)
    Rfin = (B64.unsqueeze(0) - S @ X64).norm(dim=-2, keepdim=True) / bn.masked_fill(zero, 1.0)
    Rfin = Rfin * live
    # (c') "to within its stopping tolerance", with ANY preconditioner: once the update criterion has been met (or the Krylov space is
    # exhausted) the relative residual of every system is bounded by the tolerance amplified by the condition number
    # (with a preconditioner P the shifted systems the recurrences solve are (K + s P) x = b - what the contour quadrature needs - so only the
    # unshifted system has a preconditioner-independent meaning and is judged)
    # (exhaustion: without re-orthogonalisation n + 1 steps are only "exact" for well-conditioned systems)
    # (exhaustion is judged without a preconditioner only: the recurrences then run on P^-1/2 K P^-1/2, whose conditioning - and with it
    # the finite-precision delay of the n-step termination - is not that of K)
    if (stopped_by_tol or (kreached >= n + 1 and kapS <= 100 and pre is None)) and (pre is None or sk == "none"):
        tol_eff = convs[-1]["tolerance"] if stopped_by_tol else 0.0
        rb = 30 * tol_eff * kapS + 1e4 * kapS * eps + (0.0 if stopped_by_tol else 1e-6 * kapS)
        if rb < 5e-2:
            if not bool((Rfin <= rb).all()):
                ctx.fail("residual_within_stopping_tolerance", "value", err=float(Rfin.max()),
                         detail=f"relative residual {float(Rfin.max()):.2e} after stopping on {'the update criterion' if stopped_by_tol else 'Krylov exhaustion'} "
                                f"(tolerance {tol_eff:.0e}, kappa {kapS:.1e}, bound {rb:.1e})", **kw)
            else:
                ctx.ok("residual_within_stopping_tolerance", kb, n >= 2)
    # without re-orthogonalisation the Lanczos vectors inside MINRES lose orthogonality as kappa and the step count grow, and the
    # iterate then lags behind the exact-arithmetic optimum: optimality is only decidable for small, well-conditioned systems
    if pre is None and kapS <= 100 and n <= 16 and dt == torch.float64:
        kdim = min(kreached, n)
        # least-squares optimum over span{b, Sb, ..., S^{k-1} b} via an orthonormal Krylov basis (float64 Arnoldi)
        Sf = S.reshape(-1, n, n) if S.dim() > 3 else S
        opt = torch.zeros_like(Rfin)
        flatS = S.expand(nsh, *batch, n, n).reshape(-1, n, n)
        flatB = Bn.unsqueeze(0).expand(nsh, *batch, n, B64.shape[-1]).reshape(-1, n, B64.shape[-1])
        optf = torch.zeros(flatS.shape[0], 1, B64.shape[-1], dtype=torch.float64)
        for i_ in range(flatS.shape[0]):
            for c_ in range(B64.shape[-1]):
                b_ = flatB[i_, :, c_]
                if float(b_.norm()) == 0:
                    continue
                q = [b_ / b_.norm()]
                while len(q) < kdim:
                    w = flatS[i_] @ q[-1]
                    for _ in range(2):
                        for u in q:
                            w = w - (u @ w) * u
                    if float(w.norm()) < 1e-12:
                        break
                    q.append(w / w.norm())
                Qk = torch.stack(q, 1)
                SQ = flatS[i_] @ Qk
                y = torch.linalg.lstsq(SQ, b_.unsqueeze(-1)).solution
                optf[i_, 0, c_] = (b_.unsqueeze(-1) - SQ @ y).norm()
        opt = optf.reshape(nsh, *batch, 1, B64.shape[-1])
        delta = 1e-6 if dt == torch.float64 else 1e-2
        floor = 1e-8 * kapS  # attainable accuracy of the recurrences (measured up to 1.5e-9 kappa over 1.3e6 thorough cases)
        if not bool((Rfin <= opt * (1 + delta) + floor).all()):
            ctx.fail("krylov_optimal_residual", "value", err=float((Rfin - opt).max()),
                     detail=f"relative residual {float(Rfin.max()):.3e} vs Krylov optimum {float(opt.max()):.3e} (dim {kdim})", **kw)
        else:
            ctx.ok("krylov_optimal_residual", kb, n >= 2, sample=dict(n=n, kappa=case["kappa"], shifts=sk, iterations=kreached, residual=float(Rfin.max()), optimum=float(opt.max())))
        if kreached >= n + 1 and not bool((Rfin <= 1e-8 * kapS + 1000 * kapS * eps).all()):
            ctx.fail("full_krylov_residual", "value", err=float(Rfin.max()), detail=f"relative residual {float(Rfin.max()):.2e} at full Krylov dimension (kappa {kapS:.1e})", **kw)
    # (d) metamorphic
    if case["clause"] == "scaling" and kapS <= 100 and (dt == torch.float64 or n >= 12):
        r2, ex = compare.attempt(run, B * 2.5)
        if ex is None and torch.isfinite(r2[0]).all():
            e = compare.relerr(r2[0], X * 2.5, scale=1e-300)
            # the scaled run may stop one check later / earlier (rounding of the normalised rhs): agreement up to the stopping tolerance
            if not e <= max(1e-5, 10 * case["tol"]) * max(kapS, 1.0) + 1e4 * kapS * eps:
                ctx.fail("scaling_linearity", "value", err=e, **kw)
            else:
                ctx.ok("scaling_linearity", kb, n >= 2)
    # (solutions of different right-hand sides live in different Krylov spaces: they only add up once each run has converged)
    if case["clause"] == "additivity" and mi is None and case["tol"] <= 1e-8 and kapS <= 1e3 and dt == torch.float64 and pre is None and float(Rfin.max()) <= 1e-8:
        B2 = torch.randn(B.shape, generator=g, dtype=torch.float64).to(dt)
        r1, ex1 = compare.attempt(run, B2)
        r12, ex2 = compare.attempt(run, B + B2)
        if ex1 is None and ex2 is None:
            e = compare.relerr(r12[0], X + r1[0], scale=1e-300)
            # each run stops at its own relative-update criterion: agreement up to the stopping tolerance amplified by kappa
            if not e <= max(1e-5, 10 * case["tol"]) * max(kapS, 1.0):
                ctx.fail("additivity", "value", err=e, **kw)
            else:
                ctx.ok("additivity", kb, n >= 2)


def run_ciq(case, ctx):
    import linear_operator
    from linear_operator import settings
    from linear_operator.operators import DenseLinearOperator, DiagLinearOperator
    from linear_operator.utils.contour_integral_quad import contour_integral_quad

    g = torch.Generator().manual_seed(case["seed"])
    dt, A, A64 = _mat(case, g)
    n, batch = case["n"], case["batch"]
    ev = torch.linalg.eigvalsh(A64)
    kap = float((ev[..., -1] / ev[..., 0]).max())
    if not (n <= 20 and kap <= 1.2e3):
        return
    # 7 nodes are not enough for 1e-4 at kappa 1e3 (pure quadrature error ~ exp(-2 pi^2 N / (log kappa + 6)))
    tol = 1e-4 if (kap <= 1e2 * 1.2 or (n <= 8 and case["nq"] >= 15)) else (3e-2 if case["nq"] >= 15 else 8e-2)  # 7 nodes at kappa 1e3: up to 4.7e-2 measured
    usep = case["precond_size"] is not None and n >= 4
    if usep:
        d = (0.2 + torch.rand(*batch, n, generator=g, dtype=torch.float64)).to(dt)
        op = DenseLinearOperator(A) + DiagLinearOperator(d)
        A64 = A64 + torch.diag_embed(d.to(torch.float64))
        ev = torch.linalg.eigvalsh(A64)
        kap = float((ev[..., -1] / ev[..., 0]).max())
    else:
        op = DenseLinearOperator(A)
        okind = ("dense", "dense", "dense", "diag", "constant_diag", "kron_diag")[(case["seed"] >> 4) % 6] if case["mode"] == "sqrt_inv_matmul" and "lhs_rows" in case else "dense"
        if okind != "dense":
            # classes that specialise sqrt_inv_matmul (diagonal family): exact, every batch shape, with and without the left factor
            from linear_operator.operators import ConstantDiagLinearOperator, KroneckerProductDiagLinearOperator

            if okind == "diag":
                dv = ev.clone().to(dt)
                op = DiagLinearOperator(dv)
            elif okind == "constant_diag":
                dv = ev[..., :1].to(dt)
                op = ConstantDiagLinearOperator(dv, n)
                dv = dv.expand(*batch, n)
            else:
                n1 = 2 if n % 2 == 0 and n >= 4 else 1
                d1, d2 = ev[..., :n1].to(dt), ev[..., : n // n1].to(dt)
                op = KroneckerProductDiagLinearOperator(DiagLinearOperator(d1), DiagLinearOperator(d2))
                dv = (d1.unsqueeze(-1) * d2.unsqueeze(-2)).reshape(*batch, n)
            A64 = torch.diag_embed(dv.to(torch.float64))
            ev = torch.linalg.eigvalsh(A64)
            kap = float((ev[..., -1] / ev[..., 0]).max())
    cols = case["cols"]
    R = torch.randn(*batch, n, cols, generator=g, dtype=torch.float64).to(dt)
    kdec = int(round(math.log10(max(kap, 1.0))))
    kb = f"{case['family']}|k1e{kdec}|nq{case['nq']}|p{int(usep)}|b{len(batch)}"
    info = {f"n{n}", case["family"], f"kappa1e{kdec}", f"nq{case['nq']}"} | ({"batched"} if batch else set()) | ({"precond"} if usep else set())
    if not usep and okind != "dense":
        info.add("op:" + okind)
        kb += "|" + okind
    kw = dict(cls="contour_integral_quad" if case["mode"] == "ciq" else "sqrt_inv_matmul", path="precond" if usep else "plain", tags={"precond" if usep else "plain"}, info=info)
    ctx.stat("ciq_runs")
    import contextlib

    st = contextlib.ExitStack()
    st.enter_context(settings.num_contour_quadrature(case["nq"]))
    st.enter_context(settings.minres_tolerance(1e-10))
    if usep:
        st.enter_context(settings.min_preconditioning_size(1))
        st.enter_context(settings.max_preconditioner_size(case["precond_size"]))
    R64 = R.to(torch.float64)
    with st, warnings.catch_warnings():
        warnings.simplefilter("ignore")
        if case["mode"] == "ciq":
            inv = case["inverse"]
            out, ex = compare.attempt(lambda: contour_integral_quad(op, R, inverse=inv))
            if ex is not None:
                ctx.fail("contour_integral_quad", "exception", exc=ex, **kw)
                return
            solves, weights, no_shift, shifts = out
            got = (solves * weights).sum(0)
            want = _sym_fun(A64, (lambda e: e.rsqrt()) if inv else torch.sqrt) @ R64
            e = compare.relerr(got, want, scale=1e-300)
            name = "ciq_inverse_root" if inv else "ciq_root"
            if usep:
                # with a preconditioner P the routine returns (P^-1/2 A P^-1/2)^(-/+1/2) applied to P^1/2-transformed vectors: only finiteness
                # and shapes are judged here (the end-to-end identities are judged through sqrt_inv_matmul below)
                if not torch.isfinite(got).all() or tuple(got.shape) != tuple(want.shape):
                    ctx.fail(name, "value", detail="non-finite or mis-shaped quadrature result", **kw)
                else:
                    ctx.ok(name + "_shape_only", kb, False)
                return
            if not e <= tol:
                ctx.fail(name, "value", err=e, detail=f"sum_q w_q solves_q vs dense root: err {e:.2e} tol {tol:.0e} (kappa {kap:.1e}, {case['nq']} nodes)", **kw)
            else:
                ctx.ok(name, kb, True, sample=dict(n=n, kappa=kap, nodes=case["nq"], inverse=inv, err=e))
            # the routine solves (-K + shift I) x = b internally: the unshifted solve is -K^-1 b
            e0 = compare.relerr(no_shift, -torch.linalg.solve(A64, R64), scale=1e-300)
            if not e0 <= max(tol, 1e-6 * kap):
                ctx.fail("ciq_unshifted_solve", "value", err=e0, **kw)
            return
        # sqrt_inv_matmul
        L = torch.randn(*batch, case.get("lhs_rows", 3), n, generator=g, dtype=torch.float64).to(dt) if case["lhs"] else None
        if case.get("vec") and "lhs_rows" in case and not (batch and L is not None):
            # (a 1-D right-hand side next to a BATCHED left factor is outside the documented signature: the two are concatenated)
            # 1-D right-hand side: A^-1/2 r of shape (*batch, n) (and L A^-1/2 r of shape (*batch, rows))
            R = torch.randn(n, generator=g, dtype=torch.float64).to(dt)
            R64 = R.to(torch.float64)
            kw["info"] = info = info | {"rhs:1d"}
            kb += "|1d"
        entry = random.Random(case["seed"]).choice(["method", "function"])
        f = (lambda r, l=None: op.sqrt_inv_matmul(r, l)) if entry == "method" else (lambda r, l=None: linear_operator.sqrt_inv_matmul(op, r, l))
        out, ex = compare.attempt(lambda: f(R, L))
        if ex is not None:
            ctx.fail("sqrt_inv_matmul", "exception", exc=ex, **kw)
            return
        Aih = _sym_fun(A64, lambda e: e.rsqrt())
        if L is None:
            want = Aih @ R64
            if tuple(out.shape) != tuple(want.shape):
                ctx.fail("sqrt_inv_matmul", "shape", detail=f"got {tuple(out.shape)} want {tuple(want.shape)}", **kw)
                return
            e = compare.relerr(out, want, scale=1e-300)
            if not e <= tol:
                ctx.fail("sqrt_inv_matmul", "value", err=e, detail=f"tol {tol:.0e} kappa {kap:.1e}", **kw)
                return
            # (a batch of vectors is not a 1-D right-hand side: the second application gets it as a batch of one-column matrices)
            twice, ex = compare.attempt(lambda: f(out.unsqueeze(-1)).squeeze(-1) if R.dim() == 1 and batch else f(out))
            if ex is None:
                e2 = compare.relerr(twice, torch.linalg.solve(A64, R64 if R.dim() > 1 else R64.unsqueeze(-1).expand(*batch, n, 1)).reshape(twice.shape)
                                    if R.dim() == 1 else torch.linalg.solve(A64, R64), scale=1e-300)
                if not e2 <= 3 * tol:
                    ctx.fail("sqrt_inv_matmul_twice_is_inverse", "value", err=e2, **kw)
                    return
            ctx.ok("sqrt_inv_matmul", kb, True, sample=dict(n=n, kappa=kap, nodes=case["nq"], precond=usep, err=e))
        else:
            res, iq = out
            L64 = L.to(torch.float64)
            want = L64 @ Aih @ R64
            if tuple(res.shape) != tuple(want.shape):
                ctx.fail("sqrt_inv_matmul_lhs", "shape", detail=f"got {tuple(res.shape)} want {tuple(want.shape)}", **kw)
                return
            # the quadrature error is relative to ||L|| ||A^-1/2 R|| (an entry l^T A^-1/2 r may be small by cancellation)
            e = float((res.to(torch.float64) - want).norm()) / (float((L64.norm(dim=(-2, -1)) * (Aih @ R64).norm(dim=(-2, -1) if R64.dim() > 1 else -1)).max()) + 1e-300) \
                if torch.isfinite(res).all() else float("inf")
            wantq = (L64 @ torch.linalg.inv(A64) * L64).sum(-1)
            eq = compare.relerr(iq, wantq, scale=1e-300) if tuple(iq.shape) == tuple(wantq.shape) else float("inf")
            if not e <= tol:
                ctx.fail("sqrt_inv_matmul_lhs", "value", err=e, **kw)
            elif not eq <= 3 * tol:
                ctx.fail("sqrt_inv_matmul_lhs_inv_quad", "value" if eq != float("inf") else "shape", err=eq if eq != float("inf") else None,
                         detail=f"diag(L A^-1 L^T): got shape {tuple(iq.shape)} want {tuple(wantq.shape)}", **kw)
            else:
                ctx.ok("sqrt_inv_matmul_lhs", kb, True)


def run_case(case, ctx):
    if case["mode"] == "minres":
        run_minres(case, ctx)
    else:
        run_ciq(case, ctx)
