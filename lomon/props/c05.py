"""C05 - logdet and inverse quadratic forms equal the dense values or their Gauss-Lanczos quadrature."""
import random
import warnings

import torch

from .. import compare, zoo
from ..monitors.hooks import Recorder
from . import common
from .c04 import settings_key, settings_stack

BUDGET = {"quick": dict(seconds=45, cases=10**9), "thorough": dict(seconds=720, cases=10**9)}
RULE = ("cases: PD operators (every PD class at the root, nestings to depth 2-3, n 1..8 quick / ..12 for the quadrature identity, ..64 "
        "elsewhere in the thorough tier, batch shapes) x {logdet, torch.logdet, inv_quad(reduce), inv_quad_logdet(rhs none/vector/"
        "matrix, logdet, reduce)} x settings {max_cholesky_size 0/default, fast log_prob on/off, num_trace_samples 1/5/10, quadrature "
        "budget n / n+2 / 20, skip_logdet_forward, preconditioner on/off, cg_tolerance}. oracle: deterministic path (no cg.begin "
        "event): dense logdet / tr(R^T A^-1 R) with direct tolerance and the documented shapes; stochastic path: the returned "
        "log-determinant equals log|P| + (n/m) sum_i u_i^T log(P^-1/2 A P^-1/2) u_i evaluated densely for the probe vectors "
        "recorded from the cg.begin hook event (P from the operator's own preconditioner, identity without one) whenever both "
        "budgets reach n (n <= 12; quick sizes include 10-12 so that CG runs past its 10-iteration minimum); inv_quad is judged with the CG tolerance bound. distinct key = (root class, query, path, rhs kind, "
        "reduce, settings key, dtype) [round 4: a factorization (cholesky / root / inverse root / diagonalization) may be requested on the same object before the query: cached triangular roots steer inv_quad_logdet] [round 5: the stochastic quadrature identity is judged only when P^-1/2 A P^-1/2 has condition number <= 1e3 as well] [round 7: 4% of the cases are Kronecker products (s A) x (B / s) with s in {1e-9, 1e-8, 1e8}: a well-conditioned O(1) product whose factors carry opposite scales, judged on the direct path]")
ASSUMPTIONS = ["float64 eigendecomposition of the dense matrix is the reference for log / inverse", "probe vectors = first n_tridiag "
               "columns of the normalised right-hand side in the cg.begin hook event", "preconditioner matrix P = dense value of the "
               "operator returned by op._preconditioner() (its exactness is C10)"]
REQUIRED_STATS = ("queries", "path:cg", "path:direct", "quadrature_identity_checked")


def gen_cases(ctx):
    rng = ctx.rng
    classes = list(zoo.ALL_CLASSES)
    # 10-12: CG runs past its 10-iteration minimum while the quadrature identity is still decidable (n <= 12)
    sizes = [1, 2, 3, 4, 5, 6, 8, 10, 12, 12] if ctx.tier == "quick" else [1, 2, 3, 4, 6, 8, 10, 11, 12, 12, 24, 64]
    i = ctx.shard
    while True:
        root = classes[i % len(classes)]
        i += 1
        n = rng.choice(sizes)
        batch = rng.choice([[], [], [2], [2, 1], [3, 2]])
        dtype = rng.choice(["f64", "f64", "f64", "f32"])
        spec = zoo.gen_spec(rng, "pd", n, n, batch, depth=rng.choice([1, 2, 2, 3]), dtype=dtype, root=root)
        if spec is None:
            continue
        cfg = dict(
            max_cholesky_size=rng.choice([None, 0, 0]),
            fast_log_prob=rng.choice([None, None, False]),
            num_trace_samples=rng.choice([None, 1, 5]),
            max_lanczos_quadrature_iterations=rng.choice([None, n, n + 2]),
            skip_logdet_forward=rng.choice([None, None, None, True]),
            precond=rng.choice([None, None, 2, 15]),
            cg_tolerance=rng.choice([None, 1e-4, 1e-8]),
        )
        if rng.random() < 0.04:
            # round 7: Kronecker products whose FACTORS carry opposite scales (s A) x (B / s): the product is well conditioned and O(1),
            # so the exact Kronecker-eigenvalue log-determinant must not depend on how the scale is split between the factors
            yield dict(spec=spec, unbalanced=dict(n1=rng.choice([2, 3]), n2=rng.choice([2, 3, 4]), s=rng.choice([1e-9, 1e-8, 1e8]),
                                                  batch=rng.choice([[], [2]])),
                       query=rng.choice(["logdet", "torch.logdet", "inv_quad_logdet"]), rhs="mat", reduce=True, want_logdet=True,
                       cfg=dict(cfg, max_cholesky_size=rng.choice([None, 0]), precond=None, skip_logdet_forward=None),
                       rseed=rng.randrange(1 << 30), cached=None)
            continue
        yield dict(spec=spec, query=rng.choice(["logdet", "torch.logdet", "inv_quad", "inv_quad_logdet", "inv_quad_logdet"]),
                   rhs=rng.choice(["none", "vec", "mat", "mat"]), reduce=rng.random() < 0.6, want_logdet=rng.random() < 0.8,
                   cfg=cfg, rseed=rng.randrange(1 << 30),
                   cached=rng.choice([None, None, None, "root_decomposition", "cholesky", "root_inv_decomposition"]))


def _sym_fun(M, f):
    ev, V = torch.linalg.eigh((M + M.mT) / 2)
    return (V * f(ev).unsqueeze(-2)) @ V.mT


def run_case(case, ctx):
    from linear_operator.utils.warnings import NumericalWarning

    spec = case["spec"]
    if case.get("unbalanced"):
        from linear_operator.operators import DenseLinearOperator, KroneckerProductLinearOperator

        ub = case["unbalanced"]
        g0 = torch.Generator().manual_seed(case["rseed"] ^ 0x5A5A)
        A1 = zoo.pd_matrix(g0, ub["n1"], ub["batch"], kappa=4.0, family="uniform")
        A2 = zoo.pd_matrix(g0, ub["n2"], ub["batch"], kappa=4.0, family="uniform")
        spec = dict(spec, batch=list(ub["batch"]), cls="UnbalancedKron", n=ub["n1"] * ub["n2"], m=ub["n1"] * ub["n2"], dtype="f64")
        op = KroneckerProductLinearOperator(DenseLinearOperator(A1 * ub["s"]), DenseLinearOperator(A2 / ub["s"]))
        dense = torch.stack([torch.kron(a, b_) for a, b_ in zip(A1.reshape(-1, ub["n1"], ub["n1"]), A2.reshape(-1, ub["n2"], ub["n2"]))])
        dense = dense.reshape(*ub["batch"], spec["n"], spec["n"])
        ctx.case = case
        ctx.stat("unbalanced_kron_cases")
    else:
        b = common.try_build(spec, ctx)
        if b is None:
            return
        op, dense = b.op, b.dense
    rng = random.Random(case["rseed"])
    n, batch = spec["n"], spec["batch"]
    dt = dense.dtype
    A64 = dense.to(torch.float64)
    kappa = compare.cond(A64)
    query = case["query"]
    rk = case["rhs"]
    if rk == "vec" and batch:
        rk = "mat"
    if query == "inv_quad" and rk == "none":
        rk = "mat"
    if query in ("logdet", "torch.logdet"):
        rk = "none"
    want_ld = case["want_logdet"] or rk == "none" or query in ("logdet", "torch.logdet")
    g = torch.Generator().manual_seed(case["rseed"])
    rhs = None
    if rk == "vec":
        rhs = torch.randn(n, generator=g, dtype=torch.float64).to(dt)
    elif rk == "mat":
        rhs = torch.randn(*batch, n, rng.choice([1, 2, 3]), generator=g, dtype=torch.float64).to(dt)
    reduce = case["reduce"] or rk == "vec"  # a vector right-hand side is one column: (1,) vs () is not judged
    cfg = dict(case["cfg"])
    tags = common.spec_tags(spec) if not case.get("unbalanced") else []  # the carrier spec's structure is not this operator's
    info = common.spec_info(spec) | {"q:" + query, "rhs:" + rk, "cfg:" + settings_key(cfg), f"reduce:{int(reduce)}"}
    path = zoo.class_path(spec, 2) if not case.get("unbalanced") else "KroneckerProduct(Dense*s,Dense/s)"
    ctx.stat("queries")

    def call():
        if case.get("cached"):
            # a factorization requested earlier on the same object (under default settings): inv_quad_logdet has a shortcut through a
            # cached triangular root
            with warnings.catch_warnings():
                warnings.simplefilter("ignore")
                pre_, exc_ = compare.attempt(lambda: getattr(op, case["cached"])())
        if query == "logdet":
            return None, op.logdet()
        if query == "torch.logdet":
            return None, torch.logdet(op)
        if query == "inv_quad":
            return op.inv_quad(rhs, reduce_inv_quad=reduce), None
        return op.inv_quad_logdet(rhs, logdet=want_ld, reduce_inv_quad=reduce)

    with settings_stack(cfg, n), Recorder(keep=("cg", "lanczos"), clone=True) as rec, warnings.catch_warnings(record=True) as wl:
        warnings.simplefilter("always")
        out, ex = compare.attempt(call)
        P = None
        if ex is None and rec.count("cg.begin") and rec.of("cg.begin")[0]["precond"]:
            pre, ex2 = compare.attempt(lambda: op._preconditioner())
            if ex2 is None and pre[1] is not None:
                P = pre[1].to_dense().detach().to(torch.float64)
    used_cg = rec.count("cg.begin") > 0
    used_lanczos = rec.count("lanczos.end") > 0
    pathk = "cg" if used_cg else ("lanczos" if used_lanczos else "direct")
    ctx.stat("path:" + pathk)
    kw = dict(cls=spec["cls"], path=path, tags=set(tags) | {"path:" + pathk}, info=info)
    if case.get("unbalanced") and pathk != "direct":
        ctx.stat("unbalanced_kron_on_an_iterative_path(not judged)")  # the iterative kernels have absolute safeguards
        return
    if ex is not None:
        if compare.explicit_unsupported(ex):
            ctx.stat(f"unsupported:{spec['cls']}:{ex.frame}")
            return
        ctx.fail(query, "exception", exc=ex, **kw)
        return
    iq, ld = out
    key = f"{spec['cls']}|{query}|{pathk}|{rk}|r{int(reduce)}|{settings_key(cfg)}|{spec['dtype']}"
    eps = torch.finfo(dt).eps
    warned = any(issubclass(w.category, NumericalWarning) and "CG terminated" in str(w.message) for w in wl)
    # ---------------- inverse quadratic form
    if rhs is not None and query != "logdet":
        r64 = rhs.to(torch.float64)
        sol = torch.linalg.solve(A64, r64 if r64.dim() > 1 else r64.unsqueeze(-1))
        per_col = ((r64 if r64.dim() > 1 else r64.unsqueeze(-1)) * sol).sum(-2)
        want = per_col.sum(-1) if (reduce or rhs.dim() == 1) else per_col
        if iq is None or not torch.is_tensor(iq):
            ctx.fail(query + ".inv_quad", "type", detail=type(iq).__name__, **kw)
        elif tuple(iq.shape) != tuple(want.shape):
            ctx.fail(query + ".inv_quad", "shape", detail=f"got {tuple(iq.shape)} want {tuple(want.shape)}", **kw)
        else:
            err = compare.relerr(iq, want, scale=1e-300)
            if used_cg:
                tolc = cfg.get("cg_tolerance") or 1.0
                bound = (3 * tolc + 1e-5 + 10 * kappa * eps) * kappa
                if warned or bound > 0.3:
                    ctx.stat("inv_quad_cg_undecidable(inconclusive)")
                elif not err <= bound:
                    ctx.fail(query + ".inv_quad", "value", err=err, detail=f"bound {bound:.2e}", **kw)
                else:
                    ctx.ok(query + ".inv_quad", key, n >= 2)
            else:
                tol = min(2000 * eps * max(kappa, 1.0) + 100 * eps, 0.5)
                if used_lanczos:
                    tol = max(tol, 1e-4 * kappa)
                if used_lanczos and (kappa > 100 or dt == torch.float32):
                    ctx.stat("lanczos_path_ill_conditioned(inconclusive)")
                elif not err <= tol:
                    ctx.fail(query + ".inv_quad", "value", err=err, detail=f"kappa {kappa:.1e} tol {tol:.1e}", **kw)
                else:
                    ctx.ok(query + ".inv_quad", key, n >= 2, sample=dict(spec=zoo.class_path(spec, 3), query=query, path=pathk, err=err))
    # ---------------- log determinant
    if not (want_ld and query != "inv_quad"):
        return
    if cfg.get("skip_logdet_forward") and used_cg:
        # only the shape is judged (the forward value is documented as skipped)
        if ld is not None and torch.is_tensor(ld) and tuple(ld.shape) != tuple(batch):
            ctx.fail(query + ".logdet", "shape", detail=f"got {tuple(ld.shape)} want {tuple(batch)}", **kw)
        else:
            ctx.ok(query + ".logdet_shape_only", key, False)
        return
    true_ld = torch.logdet(A64)
    if ld is None or not torch.is_tensor(ld):
        ctx.fail(query + ".logdet", "type", detail=type(ld).__name__, **kw)
        return
    if tuple(ld.shape) != tuple(true_ld.shape):
        ctx.fail(query + ".logdet", "shape", detail=f"got {tuple(ld.shape)} want {tuple(true_ld.shape)}", **kw)
        return
    scale = float(n)
    if not used_cg:
        tol = min(2000 * eps * max(kappa, 1.0) + 100 * eps, 0.5)
        if used_lanczos:
            if kappa > 100 or dt == torch.float32:
                ctx.stat("lanczos_path_ill_conditioned(inconclusive)")
                return
            tol = max(tol, 1e-4 * kappa)
        err = float((ld.to(torch.float64) - true_ld).abs().max()) / scale
        if not err <= tol:
            ctx.fail(query + ".logdet", "value", err=err, detail=f"kappa {kappa:.1e} tol {tol:.1e}", **kw)
        else:
            ctx.ok(query + ".logdet", key, n >= 2, sample=dict(spec=zoo.class_path(spec, 3), query=query, path=pathk, err=err))
        return
    # stochastic path: exact Gauss-Lanczos quadrature of the recorded probes
    beg = rec.of("cg.begin")[0]
    m = beg["n_tridiag"]
    budget_ok = beg["n_tridiag_iter"] >= n and beg["n_iter"] >= n and n <= 12 and dt == torch.float64 and kappa <= 1e3
    if tuple(beg["rhs"].shape[:-2]) != tuple(batch) or spec["cls"] == "BatchRepeat":  # BatchRepeat hands the whole query to its base (whose preconditioner is not the one seen here)
        ctx.stat("cg_ran_on_an_inner_operator(not judged)")
        ctx.ok(query + ".logdet_stochastic_unjudged", None, False)
        return
    if not m or not budget_ok:
        ctx.stat("quadrature_budget_below_n(not judged)")
        ctx.ok(query + ".logdet_stochastic_unjudged", None, False)
        return
    Z = beg["rhs"][..., :m].to(torch.float64)  # unit probes z_i  (*batch, n, m)
    if P is None:
        Pih = torch.eye(n, dtype=torch.float64).expand(*batch, n, n)
        logdetP = torch.zeros(tuple(batch), dtype=torch.float64)
    else:
        Pih = _sym_fun(P, lambda e: e.rsqrt())
        logdetP = torch.logdet(P)
    At = Pih @ A64 @ Pih
    # the n-step identity is an exact-arithmetic statement about the matrix CG iterates on: with an ill-conditioned P^-1/2 A P^-1/2 (a
    # low-rank preconditioner can make things worse than A itself) the finite-precision recurrence needs more than n steps
    kapt = compare.cond(At)
    if not kapt <= 1e3:
        ctx.stat("quadrature_preconditioned_system_ill_conditioned(not judged)")
        ctx.ok(query + ".logdet_stochastic_unjudged", None, False)
        return
    logAt = _sym_fun(At, torch.log)
    U = Pih @ Z
    U = U / U.norm(dim=-2, keepdim=True)
    est = logdetP + (n / m) * (U * (logAt @ U)).sum(-2).sum(-1)
    err = float((ld.to(torch.float64) - est).abs().max()) / scale
    ctx.stat("quadrature_identity_checked")
    err_true = float((ld.to(torch.float64) - true_ld).abs().max()) / scale
    if err_true <= 1e-9 * max(kappa, 1.0):
        # a class override answered with the exact log-determinant although CG ran underneath: also what the property allows
        ctx.stat("exact_value_on_cg_path")
        ctx.ok(query + ".logdet", key, n >= 2)
    # CG keeps iterating to the tridiagonalization budget after it has converged; its coefficients are then formed from residuals at
    # rounding level, which perturbs the quadrature by up to ~1e-5 once n reaches 10-12 (measured); truncation errors are >= 1e-3
    elif not err <= max(1e-8 * max(kappa, 1.0), 1e-4 if n >= 9 else 0.0):
        ctx.fail(query + ".logdet_quadrature", "value", err=err,
                 detail=f"returned {ld.reshape(-1)[0].item():.6f} quadrature-of-probes {est.reshape(-1)[0].item():.6f} true {true_ld.reshape(-1)[0].item():.6f} (m={m})",
                 **dict(kw, tags=set(kw["tags"]) | ({"precond"} if P is not None else set())))
    else:
        ctx.ok(query + ".logdet_quadrature", key + ("|precond" if P is not None else ""), n >= 2,
               sample=dict(spec=zoo.class_path(spec, 3), probes=m, precond=P is not None, returned=float(ld.reshape(-1)[0]),
                           quadrature=float(est.reshape(-1)[0]), true=float(true_ld.reshape(-1)[0]), err=err))
