"""C15 - torch.* dispatch on operators matches the methods, in either argument order."""
import random
import sys
import warnings

import torch

from .. import compare, zoo
from . import common

BUDGET = {"quick": dict(seconds=30, cases=10**9), "thorough": dict(seconds=360, cases=10**9)}
RULE = ("cases: the two registration tables (_HANDLED_FUNCTIONS, _HANDLED_SECOND_ARG_FUNCTIONS) are read from the module at run time and "
        "enumerated completely x every operator class x operand kinds (Tensor, python scalar, other operator) x both operand orders "
        "(torch.f(tensor, op) and tensor <binop> op), repeated with fresh seeds; plus a sample of unregistered torch functions. oracle: "
        "torch.f(op, ...) (densified / in canonical form for factorizations) equals op.method(...) and equals torch.f on the dense "
        "operands (order and sign for the reflected forms); unregistered functions raise NotImplementedError; explicit not-supported "
        "errors accepted when the method itself raises the same. tensor-first forms use matrix and 1-D left operands. distinct key = (function, class, operand kind, order) [added: per-matrix constants (*b,1,1) with full / leading-only / trailing-only batch shapes and 2-d batches for mul / div; entrywise functions (exp, log, sqrt, abs) also judged on the diagonal alone] [round 5: isclose cells draw keyword variants (atol, rtol = atol = 0, equal_nan=True with NaNs at matching positions of a dense operator)] [round 6: half of the operator second operands are structured zoo operators (class pairs with fast paths drawn preferentially); torch.add / torch.sub alpha variants in first- and second-argument position]")
ASSUMPTIONS = ["torch.f on dense tensors is the specification", "canonical forms: Cholesky factor via L L^T, eigh via Q diag(w) Q^T, svd via U S V^T, eigvalsh sorted"]
REQUIRED_STATS = ("dispatches",)

UNREGISTERED = ["trace", "det", "tril", "triu", "linalg.inv", "linalg.det", "linalg.matrix_norm", "linalg.pinv", "mean", "max", "min", "norm",
                "cumsum", "flatten", "reshape", "t", "neg", "sin", "tanh", "relu", "sigmoid", "softmax", "mm", "bmm", "mv", "dot", "kron", "cat",
                "stack", "where", "linalg.qr", "linalg.eig", "linalg.slogdet", "linalg.matrix_rank", "cholesky_solve", "triangular_solve",
                "outer", "einsum", "pow", "square", "clamp", "round", "isnan", "allclose", "equal", "linalg.lstsq"]

PD_FUNCS = {"linalg_cholesky", "inverse", "logdet", "linalg_solve", "linalg_eigh", "linalg_eigvalsh", "linalg_svd", "sqrt", "log", "prod"}


def _tables():
    m = sys.modules["linear_operator.operators._linear_operator"]
    return m._HANDLED_FUNCTIONS, m._HANDLED_SECOND_ARG_FUNCTIONS


def _fname(f):
    return getattr(f, "__name__", str(f))


def gen_cases(ctx):
    rng = ctx.rng
    first, second = _tables()
    fnames = sorted(_fname(f) for f in first)
    snames = sorted(_fname(f) for f in second)
    classes = list(zoo.ALL_CLASSES)
    grid = [("first", f, c) for f in fnames for c in classes] + [("second", f, c) for f in snames for c in classes] + \
           [("binop", b, c) for b in ("+", "-", "*", "@") for c in classes] + [("unregistered", u, c) for u in UNREGISTERED for c in ("Dense", "Diag", "Kron")]
    rnd = 0
    while True:
        for i, (mode, f, c) in enumerate(grid):
            if i % ctx.nshards != ctx.shard:
                continue
            yield dict(mode=mode, fn=f, cls=c, round=rnd, okind=rng.choice(["tensor", "scalar", "operator", "tensor", "bconst"]), rseed=rng.randrange(1 << 30))
        rnd += 1


def _resolve(name):
    obj = torch
    name = name.replace("linalg_", "linalg.")
    for part in name.split("."):
        obj = getattr(obj, part)
    return obj


def _dense(x):
    if torch.is_tensor(x) or not hasattr(x, "to_dense"):
        return x
    return x.to_dense()


def _canon(fname, res, upper=False):
    """canonical dense form of a result"""
    if fname == "linalg_cholesky":
        L = _dense(res)
        return L.mT @ L if upper else L @ L.mT
    if fname == "linalg_eigh":
        w, Q = res
        Q = _dense(Q)
        return (Q * w.unsqueeze(-2)) @ Q.mT
    if fname == "linalg_svd":
        U, S, V = res
        U, V = _dense(U), _dense(V)
        return (U * S.unsqueeze(-2)) @ V  # torch convention: third factor is Vh
    if fname == "linalg_eigvalsh":
        return torch.sort(_dense(res), -1)[0]
    if isinstance(res, tuple):
        return tuple(_dense(r) for r in res)
    return _dense(res)


def _isclose_variant(case, spec, op, base, other):
    """keyword arguments of torch.isclose (rtol / atol / equal_nan) must reach the comparison: -> (kwargs, operator, its dense value, other)"""
    v = (case["rseed"] >> 3) % 4
    if v == 1:
        return dict(atol=1.5), op, base, other  # the entry moved by 1.0 is close again
    if v == 2:
        return dict(rtol=0.0, atol=0.0), op, base, other
    if v == 3 and spec["cls"] == "Dense" and base.shape[-1] >= 2:
        # NaNs at matching positions (a dense operator can hold them): equal only with equal_nan=True
        from linear_operator.operators import DenseLinearOperator

        bn = base.clone()
        bn[..., 0, -1] = float("nan")
        on = other.clone()
        on[..., 0, -1] = float("nan")
        on[..., -1, 0] = float("nan")
        return dict(equal_nan=True), DenseLinearOperator(bn), bn, on
    return {}, op, base, other


def run_case(case, ctx):
    mode, fn, cname = case["mode"], case["fn"], case["cls"]
    rng = random.Random(case["rseed"])
    g = torch.Generator().manual_seed(case["rseed"])
    kind = "pd" if (fn in PD_FUNCS or rng.random() < 0.4) else rng.choice(["square", "sym", "psd", "rect"])
    if fn == "linalg_solve_triangular":
        kind = rng.choice(["tril", "triu"])
        if cname not in ("Triangular", "KronTri", "Dense", "Diag", "ConstantDiag", "Identity", "KronDiag"):
            kind = "pd"
    n = rng.choice([2, 3, 4])
    m = n if kind != "rect" else rng.choice([2, 3, 5])
    batch = rng.choice([[], [], [2]])
    if case["okind"] == "bconst":
        batch = rng.choice([[2], [2, 2], [3, 2], [3, 1]])
    if fn in ("prod",):
        batch = [2]
    dtype = rng.choice(["f64", "f64", "f32"])
    spec = zoo.gen_spec(rng, kind, n, m, batch, depth=1, dtype=dtype, root=cname)
    if spec is None and fn not in PD_FUNCS:
        spec = zoo.gen_spec(rng, "pd" if kind in ("tril", "triu") else kind, n, n, batch, depth=1, dtype=dtype, root=cname)
    if spec is None and fn not in PD_FUNCS:
        spec = zoo.gen_spec(rng, "square", n, n, batch, depth=1, dtype=dtype, root=cname)
    if spec is None or (fn in PD_FUNCS and mode == "first" and spec["kind"] != "pd"):
        # functions of symmetric positive definite matrices are only driven on classes that can be PD
        ctx.stat(f"cell_outside_domain:{fn}:{cname}")
        return
    b = common.try_build(spec, ctx)
    if b is None:
        return
    ctx.case = dict(case, spec=spec)  # recorded with failures (class matching); replay regenerates it from the seeds
    op, dense = b.op, b.dense
    dt = dense.dtype
    n, m = dense.shape[-2:]
    tol = max(common.spec_tol(spec), 1e-7 if compare.is64(dt) else 2e-3)
    tags = common.spec_tags(spec)
    path = zoo.class_path(spec, 2)
    ctx.stat("dispatches")

    def randn(*shape):
        return torch.randn(tuple(shape), generator=g, dtype=torch.float64).to(dt)

    okind = case["okind"]
    kw = dict(cls=cname, path=path, tags=set(tags), info=common.spec_info(spec) | {"fn:" + fn, "mode:" + mode, "operand:" + okind})

    def judge(oname, lib_thunk, ref_thunk, meth_thunk=None, key_extra=""):
        key = f"{fn}|{cname}|{okind}|{mode}{key_extra}"
        with warnings.catch_warnings():
            warnings.simplefilter("ignore")
            want, exr = compare.attempt(ref_thunk)
            if exr is not None:
                ctx.stat("torch_rejects(not judged)")
                return
            got, ex = compare.attempt(lambda: _canon(fn, lib_thunk()))
            mres, exm = (None, None)
            if meth_thunk is not None:
                mres, exm = compare.attempt(lambda: _canon(fn, meth_thunk()))
        if ex is not None:
            if exm is not None and exm.type == ex.type and (compare.explicit_unsupported(ex) or ex.type == "NotImplementedError"):
                ctx.stat(f"unsupported:{fn}:{cname}")
                ctx.ok(oname + ".unsupported", None, False)
                return
            if compare.explicit_unsupported(ex):
                ctx.stat(f"unsupported:{fn}:{cname}")
                ctx.ok(oname + ".unsupported", None, False)
                return
            ctx.fail(oname, "exception", exc=ex, **kw)
            return
        if isinstance(want, tuple) or not torch.is_tensor(want):
            if not torch.is_tensor(want):
                if got != want:
                    ctx.fail(oname, "value", detail=f"got {got} want {want}", **kw)
                else:
                    ctx.ok(oname, key, True)
                return
        if not torch.is_tensor(got):
            ctx.fail(oname, "type", detail=type(got).__name__, **kw)
            return
        if tuple(got.shape) != tuple(want.shape):
            ctx.fail(oname, "shape", detail=f"got {tuple(got.shape)} want {tuple(want.shape)}", **kw)
            return
        if want.dtype == torch.bool:
            okv = bool((got == want).all())
            err = 0.0 if okv else 1.0
        else:
            err = compare.relerr(got, want)
        if not err <= tol * 100:
            ctx.fail(oname, "value", err=err, detail="vs torch on dense operands", **kw)
            return
        if mres is not None and torch.is_tensor(mres) and tuple(mres.shape) == tuple(got.shape) and mres.dtype != torch.bool:
            e2 = compare.relerr(got, mres)
            if not e2 <= tol * 100:
                ctx.fail(oname, "value", err=e2, detail="torch.f(op) differs from op.method()", **dict(kw, tags=set(tags) | {"vs_method"}))
                return
        ctx.ok(oname, key, True, sample=dict(fn=fn, cls=cname, mode=mode, operand=okind, err=err))

    if mode == "unregistered":
        f = _resolve(fn)
        args = (op,)
        if fn in ("mm", "bmm", "mv", "dot", "kron", "outer", "cholesky_solve", "triangular_solve", "linalg.lstsq", "allclose", "equal", "where"):
            args = (op, randn(*dense.shape))
        if fn in ("cat", "stack"):
            args = ([op, op],)
        if fn == "einsum":
            args = ("...ij->...ji", op)
        if fn == "pow":
            args = (op, 2)
        if fn == "clamp":
            args = (op, 0.0)
        if fn in ("softmax", "cumsum"):
            args = (op, -1)
        if fn == "reshape":
            args = (op, (-1,))
        _, ex = compare.attempt(lambda: f(*args))
        if ex is None:
            ctx.fail("unregistered", "no-raise", detail=f"torch.{fn} returned instead of raising NotImplementedError", **kw)
        elif ex.type != "NotImplementedError":
            # torch itself may reject the call before dispatch (TypeError for argument structure): not a dispatch decision
            if ex.frame == "outside":
                ctx.stat("rejected_by_torch_before_dispatch")
                ctx.ok("unregistered.rejected_by_torch", None, False)
            else:
                ctx.fail("unregistered", "exception", exc=ex, detail="expected NotImplementedError", **kw)
        else:
            ctx.ok("unregistered", f"{fn}|{cname}", True)
        return

    # second operand
    if okind == "bconst" and not (fn in ("mul", "div", "true_divide", "*") and batch):
        okind = "tensor"
    if okind == "bconst":
        # a tensor of per-matrix constants (*b, 1, 1) whose batch shape broadcasts against the operator's (full, leading dimension
        # only, trailing dimension only)
        bc = rng.choice([list(batch), [batch[0]] + [1] * (len(batch) - 1), [1] * (len(batch) - 1) + [batch[-1]]])
        t = 0.5 + randn(*bc, 1, 1).abs()
        other_lib = other_dense = t
    elif okind == "scalar":
        other_lib = other_dense = 1.5
    elif okind == "operator":
        from linear_operator.operators import DenseLinearOperator

        t = randn(*dense.shape)
        if fn in ("matmul", "@"):
            t = randn(*batch, m, 2)
        other_lib, other_dense = DenseLinearOperator(t), t
        if fn in ("matmul", "@", "add", "sub", "+", "-") and (fn in ("matmul", "@") or n == m) and rng.random() < 0.5:
            # a STRUCTURED second operand (class-pair fast paths: Diag @ BlockDiag, Diag @ Diag, Kron @ Kron, Triangular @ Triangular ...)
            c2 = rng.choice(["BlockDiag", "BlockInterleaved", "Diag", "ConstantDiag", "Identity", "Kron", "Toeplitz", "Triangular", "Root", "Sum", "Matmul", spec["cls"]])
            pairs = {"Diag": ["BlockDiag", "BlockInterleaved", "Diag", "Triangular", "KronDiag", "Kron"], "ConstantDiag": ["BlockDiag", "Diag", "ConstantDiag", "Identity", "Triangular"],
                     "KronDiag": ["BlockDiag", "Diag", "KronDiag", "Kron"], "Identity": ["BlockDiag", "Diag", "Identity", "Zero"], "BlockDiag": ["Diag", "BlockDiag", "ConstantDiag"],
                     "BlockInterleaved": ["Diag", "BlockInterleaved"], "Kron": ["Kron", "KronDiag", "Diag"], "Triangular": ["Triangular", "Diag", "ConstantDiag"],
                     "KronTri": ["KronTri", "Triangular"], "Zero": ["Diag", "Zero", "Identity"]}
            if spec["cls"] in pairs and rng.random() < 0.7:
                c2 = rng.choice(pairs[spec["cls"]])
            sp2 = zoo.gen_spec(rng, rng.choice(["pd", "square"]), m, m, list(batch), depth=1, dtype=spec["dtype"], root=c2)
            b2 = common.try_build(sp2, ctx) if sp2 is not None else None
            if b2 is not None:
                other_lib, other_dense = b2.op, b2.dense
                kw["info"] = kw["info"] | {"operand_class:" + sp2["cls"]}
                kw["tags"] = set(kw["tags"]) | common.spec_tags(sp2)
    else:
        t = randn(*dense.shape)
        if fn in ("matmul", "@"):
            t = randn(*batch, m, 2)
        other_lib = other_dense = t

    if mode == "binop":
        lhs = randn(*dense.shape) if fn != "@" else (randn(n) if case["rseed"] % 3 == 0 else randn(*batch, 2, n))  # 1-D left operands too
        if okind == "bconst" and fn == "*":
            lhs = other_dense  # constants * op
        table = {"+": (lambda: lhs + op, lambda: lhs + dense), "-": (lambda: lhs - op, lambda: lhs - dense),
                 "*": (lambda: lhs * op, lambda: lhs * dense), "@": (lambda: lhs @ op, lambda: lhs @ dense)}
        judge("tensor" + fn + "op", *table[fn])
        # operator on the left with the same kinds
        rhs_l, rhs_d = (other_lib, other_dense)
        if fn == "@" and okind == "scalar":
            return
        table2 = {"+": (lambda: op + rhs_l, lambda: dense + rhs_d), "-": (lambda: op - rhs_l, lambda: dense - rhs_d),
                  "*": (lambda: op * rhs_l, lambda: dense * rhs_d), "@": (lambda: op @ rhs_l, lambda: dense @ rhs_d)}
        if not (fn == "*" and okind not in ("scalar", "bconst") and spec["kind"] not in ("pd",)):
            judge("op" + fn + "x", *table2[fn], key_extra="|left")
        return

    f = _resolve(fn)
    if mode == "second":
        if fn == "matmul":
            lhs = randn(n) if case["rseed"] % 3 == 0 else randn(*batch, 2, n)
        else:
            lhs = randn(*dense.shape)
        base = dense
        if fn == "isclose":
            # compare against the operator's own dense value so that rounding noise of structured kernels (FFT) cannot flip entries
            base = op.to_dense().detach()
            lhs = base.clone()
            lhs[..., 0, 0] += 1.0
            kwv, opv, basev, lhs = _isclose_variant(case, spec, op, base, lhs)
            judge("torch." + fn + "(tensor,op)" + (f"[{','.join(sorted(kwv))}]" if kwv else ""), lambda: f(lhs, opv, **kwv), lambda: f(lhs, basev, **kwv))
            return
        if fn in ("add", "sub") and (case["rseed"] >> 4) % 3 == 0:
            # torch.add / torch.sub scale their SECOND argument by alpha - also when that argument is the operator
            judge("torch." + fn + "(tensor,op)[alpha]", lambda: f(lhs, op, alpha=2.5), lambda: f(lhs, base, alpha=2.5))
            return
        judge("torch." + fn + "(tensor,op)", lambda: f(lhs, op), lambda: f(lhs, base))
        return

    # first-argument table
    first, _ = _tables()
    mname = {_fname(k): v for k, v in first.items()}[fn]
    meth = getattr(op, mname)
    if fn in ("abs", "exp", "log", "sqrt", "clone", "numel", "logdet", "inverse", "linalg_eigh", "linalg_eigvalsh", "linalg_svd"):
        if fn == "linalg_svd":
            judge("torch." + fn, lambda: f(op), lambda: _canon(fn, torch.linalg.svd(dense)), None)
        elif fn == "linalg_eigh":
            judge("torch." + fn, lambda: f(op), lambda: _canon(fn, torch.linalg.eigh(dense)), lambda: meth())
        else:
            judge("torch." + fn, lambda: f(op), lambda: _canon(fn, f(dense)), lambda: meth())
            if fn in ("exp", "log", "sqrt", "abs"):
                # entrywise functions also judged on the diagonal alone: diagonal-type operators apply them to the diagonal only
                # (a recorded finding about the off-diagonal zeros), but what they return there has to be f of the diagonal
                def _dg(x):
                    x = x.to_dense() if hasattr(x, "to_dense") and not torch.is_tensor(x) else x
                    return x.diagonal(dim1=-2, dim2=-1)

                judge("torch." + fn + ".diagonal", lambda: _dg(f(op)), lambda: _dg(f(dense)), lambda: _dg(meth()))
    elif fn == "linalg_cholesky":
        up = rng.random() < 0.5
        up_ = up

        def canon_up(x):
            return _canon(fn, x, upper=up_)

        want_c, got_c = dense, compare.attempt(lambda: canon_up(f(op, upper=up)))
        if got_c[1] is not None:
            if compare.explicit_unsupported(got_c[1]):
                ctx.stat(f"unsupported:{fn}:{cname}")
            else:
                ctx.fail("torch." + fn, "exception", exc=got_c[1], **kw)
            return
        e_ = compare.relerr(got_c[0], want_c)
        m_ = compare.attempt(lambda: canon_up(meth(upper=up)))
        if not e_ <= tol * 100:
            ctx.fail("torch." + fn, "value", err=e_, detail="L L^T (R^T R) vs dense", **kw)
        elif m_[1] is None and not compare.relerr(got_c[0], m_[0]) <= tol * 100:
            ctx.fail("torch." + fn, "value", err=compare.relerr(got_c[0], m_[0]), detail="torch.f(op) differs from op.method()", **dict(kw, tags=set(tags) | {"vs_method"}))
        else:
            ctx.ok("torch." + fn, f"{fn}|{cname}|up{int(up)}", True)
        # orientation of the returned factor
        res, ex = compare.attempt(lambda: _dense(f(op, upper=up)))
        if ex is None and torch.is_tensor(res):
            off = torch.tril(res, -1) if up else torch.triu(res, 1)
            if off.abs().max() > 0:
                ctx.fail("torch." + fn, "value", detail="factor not triangular in the requested orientation", **dict(kw, tags=set(tags) | {"orientation"}))
    elif fn in ("add", "sub", "mul", "div"):
        if fn == "div" and okind not in ("scalar", "bconst"):
            other_lib = other_dense = torch.tensor(2.0, dtype=dt)
        if fn == "mul" and okind not in ("scalar", "bconst") and spec["kind"] != "pd":
            other_lib = other_dense = torch.tensor(0.7, dtype=dt)
        if fn == "mul" and okind not in ("scalar", "bconst") and spec["kind"] == "pd":
            fac = randn(*dense.shape[:-2], n, n + 1)
            pdm = fac @ fac.mT / n + torch.eye(n, dtype=dt)
            from linear_operator.operators import DenseLinearOperator

            other_lib, other_dense = (DenseLinearOperator(pdm), pdm) if okind == "operator" else (pdm, pdm)
        if fn in ("add", "sub") and (case["rseed"] >> 4) % 3 == 0 and torch.is_tensor(other_dense):
            judge("torch." + fn + "[alpha]", lambda: f(op, other_lib, alpha=2.5), lambda: f(dense, other_dense, alpha=2.5), lambda: meth(other_lib, alpha=2.5))
        else:
            judge("torch." + fn, lambda: f(op, other_lib), lambda: f(dense, other_dense), lambda: meth(other_lib))
    elif fn == "matmul":
        if okind == "scalar":
            other_lib = other_dense = randn(m)
        judge("torch." + fn, lambda: f(op, other_lib), lambda: f(dense, other_dense), lambda: meth(other_lib))
    elif fn == "linalg_solve":
        rhs = randn(*batch, n, 2)
        judge("torch." + fn, lambda: f(op, rhs), lambda: torch.linalg.solve(dense, rhs), lambda: meth(rhs))
    elif fn == "linalg_solve_triangular":
        rhs = randn(*batch, n, 2)
        up = spec["kind"] == "triu"
        judge("torch." + fn, lambda: f(op, rhs, upper=up), lambda: torch.linalg.solve_triangular(dense, rhs, upper=up), lambda: meth(rhs, upper=up))
    elif fn == "diagonal":
        judge("torch." + fn, lambda: f(op, dim1=-2, dim2=-1), lambda: torch.diagonal(dense, dim1=-2, dim2=-1), lambda: meth())
    elif fn == "isclose":
        base = op.to_dense().detach()
        o2 = base.clone()
        o2[..., 0, 0] += 1.0
        kwv, opv, basev, o2 = _isclose_variant(case, spec, op, base, o2)
        judge("torch." + fn + (f"[{','.join(sorted(kwv))}]" if kwv else ""), lambda: f(opv, o2, **kwv), lambda: f(basev, o2, **kwv), lambda: getattr(opv, mname)(o2, **kwv))
    elif fn == "permute":
        nb = len(batch)
        dims = list(range(nb))[::-1] + [nb, nb + 1]
        judge("torch." + fn, lambda: f(op, dims), lambda: f(dense, dims), lambda: meth(*dims))
    elif fn in ("sum", "prod"):
        d = -3 if batch else (-1 if fn == "sum" else None)
        if d is None:
            return
        judge("torch." + fn, lambda: f(op, d), lambda: f(dense, d), lambda: meth(d))
    elif fn == "squeeze":
        sp = op.unsqueeze(0)
        judge("torch." + fn, lambda: f(sp, 0), lambda: dense, lambda: sp.squeeze(0))
    elif fn == "unsqueeze":
        judge("torch." + fn, lambda: f(op, 0), lambda: dense.unsqueeze(0), lambda: meth(0))
    elif fn == "transpose":
        judge("torch." + fn, lambda: f(op, -1, -2), lambda: dense.transpose(-1, -2), lambda: meth(-1, -2))
    else:
        ctx.stat("function_without_driver:" + fn)


def coverage_extra(tot):
    first, second = _tables_safe()
    return dict(registered_first_arg=first, registered_second_arg=second, exhaustive=False,
                exhaustive_note="the registration tables x class grid is enumerated completely in every run (function_without_driver "
                                "stats list table entries the driver has no argument recipe for); values are sampled")


def _tables_safe():
    try:
        from .. import env

        env.setup()
        a, b = _tables()
        return sorted(_fname(f) for f in a), sorted(_fname(f) for f in b)
    except Exception:  # noqa: BLE001
        return [], []
