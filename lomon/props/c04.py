"""C04 - solve returns A^{-1} B whichever algorithm the library selects."""
import contextlib
import random
import warnings

import torch

from .. import compare, zoo
from ..monitors.hooks import Recorder
from . import common

BUDGET = {"quick": dict(seconds=45, cases=10**9), "thorough": dict(seconds=720, cases=10**9)}
RULE = ("cases: PD operators from the typed zoo (every PD class at the root, nestings to depth 2-3, sizes 1..8 quick / ..64 thorough, "
        "batch shapes, kappa <= 200 generic and up to 1e4 for dense spectra) x rhs {vector, matrix, batched, broadcast} x left factor "
        "x settings matrix {max_cholesky_size 0/default, fast solves on/off, cg_tolerance, max_cg_iterations, preconditioner "
        "off / min_preconditioning_size(1) x max_preconditioner_size {2, 15}, memory_efficient, linalg dtype} x cached-factor "
        "variants; entry points op.solve, torch.linalg.solve, linear_operator.solve; triangular operators vs solve_triangular. "
        "oracle: backward error on the dense matrix with the tolerance of the path observed through the cg.* / chol.* hook events "
        "(direct: working precision x kappa; CG: configured tolerance + 1e-5 + 10 kappa eps, judged only when CG ended without "
        "NumericalWarning). harvested factors: CholLinearOperator(op.cholesky(upper), upper) around the factor object the library itself "
        "returns (Kronecker-/block-triangular, diagonal ...) is solved as well. distinct key = (root class, path taken, rhs kind, left?, settings key, dtype) [round 5: 3/8 of the cases zero a column of the right-hand side (in every member or in one batch member only) or a row of the left factor] [round 6: 4% of the cases are hand-built well-conditioned structured operators at overall scales 1e-8 / 1e-4 / 1e4 (Kronecker + constant / general diagonal, Kronecker, dense + diagonal, low rank + diagonal, diagonal, Toeplitz), judged on the direct / eigen-structured routes only]")
ASSUMPTIONS = ["torch.linalg.solve on the float64 dense matrix is the reference", "hook events decide which kernel ran",
               "CG runs that end with a NumericalWarning are inconclusive for the value clause"]
REQUIRED_STATS = ("solves", "path:cg", "path:direct", "path:lanczos")

SETTINGS_GRID = dict(
    max_cholesky_size=[None, None, 0],
    fast_solves=[None, None, False],
    cg_tolerance=[None, 1e-2, 1e-4],
    max_cg_iterations=[None, None, "half"],
    precond=[None, None, 2, 15],
    memory_efficient=[None, None, True],
    linalg_dtype=[None, None, "float"],
)


def gen_settings(rng):
    return {k: rng.choice(v) for k, v in SETTINGS_GRID.items()}


def settings_stack(cfg, n):
    from linear_operator import settings

    st = contextlib.ExitStack()
    if cfg.get("max_cholesky_size") is not None:
        st.enter_context(settings.max_cholesky_size(cfg["max_cholesky_size"]))
    if cfg.get("fast_solves") is not None:
        st.enter_context(settings.fast_computations(solves=cfg["fast_solves"]))
    if cfg.get("cg_tolerance") is not None:
        st.enter_context(settings.cg_tolerance(cfg["cg_tolerance"]))
    if cfg.get("max_cg_iterations") is not None:
        # the library refuses a tridiagonalization budget above the CG budget: keep the two consistent
        st.enter_context(settings.max_cg_iterations(max(1, n // 2)))
        if cfg.get("max_lanczos_quadrature_iterations") is None:
            st.enter_context(settings.max_lanczos_quadrature_iterations(max(1, n // 2)))
    if cfg.get("precond") is not None:
        st.enter_context(settings.min_preconditioning_size(1))
        st.enter_context(settings.max_preconditioner_size(cfg["precond"]))
    if cfg.get("memory_efficient"):
        st.enter_context(settings.memory_efficient(True))
    if cfg.get("linalg_dtype") == "float":
        st.enter_context(settings.linalg_dtypes(torch.float))
    for k in ("max_lanczos_quadrature_iterations", "num_trace_samples", "max_root_decomposition_size"):
        if cfg.get(k) is not None:
            st.enter_context(getattr(settings, k)(cfg[k]))
    if cfg.get("fast_log_prob") is not None:
        st.enter_context(settings.fast_computations(log_prob=cfg["fast_log_prob"]))
    if cfg.get("fast_root") is not None:
        st.enter_context(settings.fast_computations(covar_root_decomposition=cfg["fast_root"]))
    if cfg.get("skip_logdet_forward"):
        st.enter_context(settings.skip_logdet_forward(True))
    return st


def settings_key(cfg):
    return ",".join(f"{k}={v}" for k, v in sorted(cfg.items()) if v is not None) or "default"


def gen_cases(ctx):
    rng = ctx.rng
    classes = list(zoo.ALL_CLASSES)
    sizes = [1, 2, 3, 4, 5, 6, 8] if ctx.tier == "quick" else [1, 2, 3, 4, 6, 8, 12, 16, 24, 32, 64]
    i = ctx.shard
    while True:
        root = classes[i % len(classes)]
        i += 1
        tri = rng.random() < 0.08
        n = rng.choice(sizes)
        batch = rng.choice([[], [], [2], [2, 1], [3, 2]])
        dtype = rng.choice(["f64", "f64", "f32"])
        if tri:
            spec = zoo.gen_spec(rng, rng.choice(["tril", "triu"]), n, n, batch, depth=1, dtype=dtype, root=rng.choice(["Triangular", "KronTri"]))
        else:
            spec = zoo.gen_spec(rng, "pd", n, n, batch, depth=rng.choice([1, 2, 2, 3]), dtype=dtype, root=root)
        if spec is None:
            continue
        if spec["cls"] == "Dense" and rng.random() < 0.3:
            spec["opt"]["kappa"] = rng.choice([1e3, 1e4])
        if rng.random() < 0.04:
            # well-conditioned structured operators at a very small / large overall SCALE (eigenvalues around 1e-8 .. 1e4): direct and
            # eigen-structured solves are scale-free (iterative paths have absolute safeguards and are counted, not judged, there)
            nn = rng.choice([4, 6, 8])
            yield dict(scaled=dict(kind=rng.choice(["kron_plus_constant", "kron_plus_constant", "kron_plus_diag", "kron", "dense_plus_diag", "lowrank_plus_diag", "diag", "toeplitz"]),
                                   s=rng.choice([1e-8, 1e-8, 1e-4, 1e4]), n=nn, batch=rng.choice([[], [2]])),
                       spec=dict(cls="Scaled", kind="pd", n=nn, m=nn, batch=[], dtype="f64", seed=rng.randrange(1 << 30), opt={}, children=[]),
                       rhs=rng.choice(["vec", "mat", "batched"]), left=rng.random() < 0.25, cfg=gen_settings(rng), entry="method", cached=None, wrap=None,
                       rseed=rng.randrange(1 << 30))
        yield dict(spec=spec, rhs=rng.choice(["vec", "mat", "mat1", "batched", "bcast_more"]), left=rng.random() < 0.25,
                   cfg=gen_settings(rng), entry=rng.choice(["method", "method", "torch", "function"]),
                   cached=rng.choice([None, None, None, "cholesky", "root_decomposition", "root_inv_decomposition"]),
                   wrap=rng.choice([None, None, None, None, None, "chol_lower", "chol_upper"]),
                   rseed=rng.randrange(1 << 30))


def _build_scaled(case):
    """hand-built structured PD operators whose overall scale is s (condition number <= ~30)"""
    from linear_operator import operators as O

    sc = case["scaled"]
    kind, s_, n, batch = sc["kind"], sc["s"], sc["n"], sc["batch"]
    g = torch.Generator().manual_seed(case["rseed"])

    def pd(k, scale):
        return zoo.pd_matrix(g, k, batch, kappa=4.0, family="uniform") * scale

    def pos(k, scale):
        return (0.5 + torch.rand(*batch, k, generator=g, dtype=torch.float64)) * scale

    if kind in ("kron_plus_constant", "kron_plus_diag", "kron"):
        n1 = 2
        n2 = n // 2
        a1, a2 = pd(n1, s_ ** 0.5), pd(n2, s_ ** 0.5)
        K = O.KroneckerProductLinearOperator(O.DenseLinearOperator(a1), O.DenseLinearOperator(a2))
        Kd = (a1.unsqueeze(-1).unsqueeze(-3) * a2.unsqueeze(-2).unsqueeze(-4)).reshape(*batch, n1 * n2, n1 * n2)
        if kind == "kron":
            return K, Kd
        if kind == "kron_plus_constant":
            c = pos(1, s_ * 0.1)
            return K + O.ConstantDiagLinearOperator(c, n1 * n2), Kd + torch.diag_embed(c.expand(*batch, n1 * n2))
        d = pos(n1 * n2, s_ * 0.3)
        return K + O.DiagLinearOperator(d), Kd + torch.diag_embed(d)
    if kind == "dense_plus_diag":
        a, d = pd(n, s_), pos(n, s_ * 0.3)
        return O.DenseLinearOperator(a) + O.DiagLinearOperator(d), a + torch.diag_embed(d)
    if kind == "lowrank_plus_diag":
        r = torch.randn(*batch, n, 2, generator=g, dtype=torch.float64) * s_ ** 0.5
        d = pos(n, s_)
        return O.LowRankRootLinearOperator(r) + O.DiagLinearOperator(d), r @ r.mT + torch.diag_embed(d)
    if kind == "diag":
        d = pos(n, s_)
        return O.DiagLinearOperator(d), torch.diag_embed(d)
    col = torch.cat([torch.full((*batch, 1), 4.0, dtype=torch.float64), 0.5 * torch.rand(*batch, n - 1, generator=g, dtype=torch.float64)], -1) * s_
    idx = (torch.arange(n).unsqueeze(0) - torch.arange(n).unsqueeze(1)).abs()
    return O.ToeplitzLinearOperator(col), col[..., idx]


def run_case(case, ctx):
    import linear_operator
    from linear_operator.utils.warnings import NumericalWarning

    spec = case["spec"]
    if case.get("scaled"):
        spec = dict(spec, batch=list(case["scaled"]["batch"]), cls="Scaled:" + case["scaled"]["kind"])
        op, dense = _build_scaled(case)
        ctx.case = case
    else:
        b = common.try_build(spec, ctx)
        if b is None:
            return
        op, dense = b.op, b.dense
    rng = random.Random(case["rseed"])
    n, batch = spec["n"], spec["batch"]
    dt = dense.dtype
    tri = spec["kind"] in ("tril", "triu")
    A64 = dense.to(torch.float64)
    kappa = compare.cond(A64) if not tri else float(torch.linalg.cond(A64).max())
    rk = case["rhs"]
    if rk == "vec" and batch:
        rk = "mat"
    rhs, _ = zoo.rhs_tensor(rng, n, batch, spec["dtype"], kindhint=rk)
    left = None
    if case["left"] and rk != "vec":
        g = torch.Generator().manual_seed(case["rseed"])
        left = torch.randn(*rhs.shape[:-2], rng.choice([1, 2, 3]), n, generator=g, dtype=torch.float64).to(dt)
    # zero columns / rows among the right-hand sides (per-column convergence masks: a column that has "converged" before the first
    # iteration must not stop the others), in every batch member or in one member only
    zsel = (case["rseed"] >> 7) % 8
    zinfo = set()
    if zsel == 0 and rhs.dim() >= 2 and rhs.shape[-1] >= 2:
        rhs = rhs.clone()
        rhs[..., 0] = 0
        zinfo = {"zero_column"}
    elif zsel == 1 and rhs.dim() >= 3 and rhs.shape[-1] >= 2 and rhs.shape[0] >= 2:
        rhs = rhs.clone()
        rhs[0, ..., -1] = 0
        zinfo = {"zero_column_one_member"}
    elif zsel == 2 and left is not None and left.shape[-2] >= 2:
        left = left.clone()
        left[..., 0, :] = 0
        zinfo = {"zero_left_row"}
    cfg = dict(case["cfg"])
    if tri:
        cfg = {}
    wrap = case.get("wrap") if not tri else None
    if wrap:
        # harvest: the factor the library itself returns (Kronecker-triangular, block-triangular, diagonal ... objects the zoo
        # never constructs directly), wrapped back into a CholLinearOperator with the orientation it was asked for
        from linear_operator.operators import CholLinearOperator

        up = wrap == "chol_upper"
        with warnings.catch_warnings():
            warnings.simplefilter("ignore")
            F, exw = compare.attempt(lambda: CholLinearOperator(op.cholesky(upper=up), upper=up))
        if exw is not None:
            ctx.stat("wrap_rejected:" + exw.type)
            return
        op = F
        ctx.stat("harvested_factor:" + type(F.root).__name__)
    entry = case["entry"] if left is None else "method"
    tags = common.spec_tags(spec)
    info = common.spec_info(spec) | {"rhs:" + rk, "cfg:" + settings_key(cfg), "entry:" + entry} | ({"left"} if left is not None else set()) | zinfo
    if wrap:
        tags = set(tags) | {"harvested:" + wrap}
    path = zoo.class_path(spec, 2)
    r64 = rhs.to(torch.float64)
    if r64.dim() > 1:  # torch.linalg.solve reads a (*batch, n) right-hand side as a batch of vectors: make the matrix reading explicit
        r64 = r64.expand(*torch.broadcast_shapes(r64.shape[:-2], A64.shape[:-2]), *r64.shape[-2:])
    ref = torch.linalg.solve(A64, r64) if not tri else torch.linalg.solve_triangular(
        A64, r64 if rhs.dim() > 1 else r64.unsqueeze(-1), upper=spec["kind"] == "triu")
    if tri and rhs.dim() == 1:
        ref = ref.squeeze(-1)
    want = ref if left is None else left.to(torch.float64) @ ref
    ctx.stat("solves")

    def call():
        if case.get("cached") and not tri:
            with warnings.catch_warnings():
                warnings.simplefilter("ignore")
                getattr(op, case["cached"])()
        if entry == "torch":
            return torch.linalg.solve(op, rhs)
        if entry == "function":
            return linear_operator.solve(op, rhs)
        return op.solve(rhs) if left is None else op.solve(rhs, left)

    with settings_stack(cfg, n), Recorder(keep=("cg", "chol", "lanczos"), clone=False) as rec, warnings.catch_warnings(record=True) as wl:
        warnings.simplefilter("always")
        got, ex = compare.attempt(call)
    used_cg = rec.count("cg.begin") > 0
    used_lanczos = rec.count("lanczos.end") > 0
    pathk = "cg" if used_cg else ("lanczos" if used_lanczos else "direct")
    ctx.stat("path:" + pathk)
    if rec.count("chol.try"):
        ctx.stat("kernel:cholesky")
    kw = dict(cls=spec["cls"], path=path, tags=set(tags) | {"path:" + pathk}, info=info)
    if ex is not None:
        if compare.explicit_unsupported(ex):
            ctx.stat(f"unsupported:{spec['cls']}:{ex.frame}")
            return
        ctx.fail("solve", "exception", exc=ex, **kw)
        return
    if not torch.is_tensor(got):
        got, ex = compare.attempt(got.to_dense)
        if ex is not None:
            ctx.fail("solve", "exception", exc=ex, **kw)
            return
    if tuple(got.shape) != tuple(want.shape):
        ctx.fail("solve", "shape", detail=f"got {tuple(got.shape)} want {tuple(want.shape)}", **kw)
        return
    warned = any(issubclass(w.category, NumericalWarning) and "CG terminated" in str(w.message) for w in wl)
    key = f"{spec['cls']}|{pathk}|{rk}|left{int(left is not None)}|{settings_key(cfg)}|{spec['dtype']}"
    eps = torch.finfo(dt).eps
    if cfg.get("linalg_dtype") == "float":
        eps = torch.finfo(torch.float32).eps
    if case.get("scaled") and (used_cg or used_lanczos):
        # the iterative kernels carry absolute safeguards (eps = 1e-10 in CG's safe divisions, absolute Lanczos breakdown / jitter levels)
        ctx.stat("scaled_operator_on_an_iterative_path(not judged)")
        return
    if used_cg:
        if warned:
            ctx.stat("cg_not_converged(inconclusive)")
            return
        tolc = cfg.get("cg_tolerance") or 1.0
        # the solver tracks the recursively updated (and, with a preconditioner, differently normed) residual, not the true one
        bound = 5 * tolc + 1e-5 + 10 * kappa * eps
        begs = rec.of("cg.begin")
        if begs and any(tuple(bg["rhs"].shape[-2:-1]) != (n,) for bg in begs):
            # CG ran on a PART of the operator (a Kronecker factor, a block): its relative residual there is amplified by the condition of
            # the other parts in the residual of the whole system
            bound = bound * max(kappa, 1.0)
            ctx.stat("cg_on_a_part_of_the_operator(bound amplified by kappa)")
            if bound >= 1.0:
                # (e.g. the default cg_tolerance of 1.0: nothing follows for the whole system from a part solved to that accuracy)
                ctx.stat("cg_on_a_part_bound_vacuous(not judged)")
                return
        if left is None:
            g64 = got.to(torch.float64)
            if rhs.dim() > 1:
                R = A64 @ g64 - r64
                bn = r64.norm(dim=-2, keepdim=True).clamp_min(1e-300)
                rel = R.norm(dim=-2, keepdim=True) / bn
            else:
                R = A64 @ g64 - r64
                rel = R.norm(dim=-1, keepdim=True) / r64.norm(dim=-1, keepdim=True).clamp_min(1e-300)
            relmean = float(rel.mean())
        else:
            relmean = compare.relerr(got, want) / max(kappa, 1.0)
        if not relmean <= bound:
            ctx.fail("solve", "value", err=relmean, detail=f"mean relative residual {relmean:.3e} > bound {bound:.3e} (cg_tolerance {tolc})", **kw)
        else:
            ctx.ok("solve", key, n >= 2, sample=dict(spec=zoo.class_path(spec, 3), path=pathk, rhs=rk, cfg=settings_key(cfg), rel_residual=relmean, bound=bound))
        return
    # direct path: forward error bounded by kappa * working precision
    tol = min((2000 if left is not None else 500) * eps * max(kappa, 1.0) + 100 * eps, 0.5)
    if used_lanczos:  # a jittered Lanczos (inverse) root took part: relative jitter 1e-6 on the tridiagonal matrix
        if kappa > 100 or dt == torch.float32:
            ctx.stat("lanczos_path_ill_conditioned(inconclusive)")
            return
        tol = max(tol, 1e-4 * max(kappa, 1.0))
    if zoo.spec_classes(spec) & {"Toeplitz", "Interpolated"}:
        tol = max(tol, compare.tol_fft(dt))
    # with a left factor the product L X may cancel: its rounding error is relative to |L| |X|, not to |L X|
    err = compare.relerr(got, want, scale=(float(left.to(torch.float64).norm()) * float(ref.norm()) if left is not None else 0.0) + 1e-300)
    if not err <= tol:
        ctx.fail("solve", "value", err=err, detail=f"kappa {kappa:.2e} tol {tol:.2e}", **kw)
    else:
        ctx.ok("solve", key, n >= 2, sample=dict(spec=zoo.class_path(spec, 3), path=pathk, rhs=rk, cfg=settings_key(cfg), err=err, tol=tol),
               near=dict(path=path, err=err, tol=tol) if err > tol / 10 else None)


def coverage_extra(tot):
    return dict(paths={k: v for k, v in tot["stats"].items() if k.startswith(("path:", "kernel:", "cg_not"))})
