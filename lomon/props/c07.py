"""C07 - gradients through operators equal gradients through the dense computation."""
import os
import sys
import warnings

import torch
from torch.overrides import TorchFunctionMode

from .. import compare, model, zoo
from . import common
from .c04 import settings_key, settings_stack

BUDGET = {"quick": dict(seconds=55, cases=10**9), "thorough": dict(seconds=780, cases=10**9)}
RULE = ("cases: every operator class (nestings to depth 2, sizes 1..6, batch shapes) rebuilt - through the library's own "
        "representation_tree - from fresh leaf tensors {random subset requires grad, some leaves expanded (stride-0) from a smaller "
        "parameter} x entry point {matmul (matrix / vector / batched / broadcast rhs), solve (with / without left factor), inv_quad, "
        "logdet, inv_quad_logdet, diagonal, to_dense, indexing, batch sum, root_decomposition, root_inv_decomposition, pivoted_cholesky, "
        "sqrt_inv_matmul, direct _bilinear_derivative(U, V)} x memory_efficient {on, off} x max_cholesky_size {0, default}. oracle (i): "
        "autograd.grad of a random linear functional of the library's output w.r.t. the flagged leaves and the right-hand sides equals "
        "autograd.grad of the same functional of the torch computation on the dense matrix assembled differentiably from the same leaves "
        "(lomon.model.denote(grad=True)); for entry points defined on symmetric matrices only, the reference uses sym(D) and gradients are "
        "compared on the tangent space of {leaves : D symmetric} (null space of the Jacobian of D - D^T, computed per case). oracle (ii), "
        "a post-condition on EVERY call of any class's _bilinear_derivative made during (i): one entry per representation tensor, and "
        "every returned entry, reduced by sum_to_size to its tensor's shape, equals autograd of sum(U * (D(theta) V)) through the dense "
        "model. The stochastic log-determinant path runs with the probe basis e_1..e_n (torch.randn interposed) so its estimate and its "
        "gradient are exact. distinct key = (root class, entry point, settings key, requires-grad pattern class) [added after seeded changes: right-hand sides with an inner broadcast batch dimension (matmul_bcast2)] [round 4: the left factor's requires-grad flag is drawn independently of the right-hand side's]")
ASSUMPTIONS = ["the dense model is differentiable in the leaves the same way the documented structure is", "torch autograd on the dense computation is the specification",
               "tolerances: direct paths 1e-6*kappa (f64) / 5e-3 (f32); iterative paths 2e-3 (f64), float32 iterative paths are not judged"]
REQUIRED_STATS = ("grads_compared", "bilinear_calls_checked")

ENTRIES = ["matmul", "matmul_vec", "matmul_bcast", "matmul_bcast2", "rmatmul", "solve", "solve_left", "inv_quad", "logdet", "inv_quad_logdet", "diagonal", "to_dense",
           "getitem", "sum_batch", "root", "root_inv", "pchol", "sqrt_inv_matmul", "bilinear", "bilinear_extra_dim", "add_diag_solve", "mul_const"]
SYM_ONLY = {"solve", "solve_left", "inv_quad", "logdet", "inv_quad_logdet", "root", "root_inv", "pchol", "sqrt_inv_matmul", "add_diag_solve"}
PD_ONLY = SYM_ONLY
_CTX = [None]
_KW = [None]
_DEPTH = [0]


class ProbeBasis(TorchFunctionMode):
    """The Hutchinson probes of the stochastic log-determinant are drawn by <preconditioner>.zero_mean_mvn_samples(t) as
    torch.randn(t, *batch, n).  With t == n that draw is answered with sqrt(n) e_1 .. sqrt(n) e_n: the probes then form a basis, which
    makes the trace estimate and its gradient exact (forward uses the normalized probes, backward the norms).  Every other draw comes
    from a fixed seeded stream."""

    def __init__(self, n):
        super().__init__()
        self.n = n
        self.gen = torch.Generator().manual_seed(4242)
        self.served = 0
        self.unserved = 0

    def __torch_function__(self, func, types, args=(), kwargs=None):
        kwargs = kwargs or {}
        if func is torch.randn:
            shape = tuple(args[0]) if len(args) == 1 and isinstance(args[0], (tuple, list, torch.Size)) else tuple(int(a) for a in args)
            dtype = kwargs.get("dtype") or torch.get_default_dtype()
            if len(shape) >= 2 and sys._getframe(1).f_code.co_name == "zero_mean_mvn_samples":
                t, k = shape[0], shape[-1]
                if t % k == 0:
                    # t probes over a k-dimensional space (block / Kronecker structures sample their factors): the basis, t / k times
                    self.served += 1
                    e = (torch.eye(k, dtype=dtype) * k**0.5).repeat(t // k, 1)
                    return e.reshape(t, *([1] * (len(shape) - 2)), k).expand(*shape).contiguous()
                self.unserved += 1
            return torch.randn(shape, generator=self.gen, dtype=torch.float64).to(dtype)
        return func(*args, **kwargs)


# ---------------------------------------------------------------------------------------------------------------------------------
# oracle (ii): post-condition on every _bilinear_derivative call


def interp_value_positions(op_, reps_):
    """positions (in reps_) of the interpolation-value tensors of InterpolatedLinearOperators that sit below a class without a derivative
    of its own (those classes differentiate through their own _matmul; the sparse interpolation product has no derivative w.r.t. its values)"""
    from linear_operator.operators import InterpolatedLinearOperator

    out = set()

    def walk(o, depth):
        if isinstance(o, InterpolatedLinearOperator) and depth > 0:
            for t in (o.left_interp_values, o.right_interp_values):
                for k, r in enumerate(reps_):
                    if r is t:
                        out.add(k)
        for a_ in list(getattr(o, "_args", ())) + list(getattr(o, "_kwargs", {}).values()):
            if hasattr(a_, "_args"):
                walk(a_, depth + 1)

    walk(op_, 0)
    return out


def _check_bilinear(self, left_vecs, right_vecs, result):
    ctx, kw = _CTX[0], _KW[0]
    if ctx is None:
        return
    cname = type(self).__name__
    try:
        reps = list(self.representation())
    except Exception:  # noqa: BLE001
        return
    if not isinstance(result, (tuple, list)):
        ctx.fail("bilinear_contract", "type", detail=f"{cname}._bilinear_derivative returned {type(result).__name__}", **dict(kw, tags=set(kw["tags"]) | {"at:" + cname}))
        return
    if len(result) != len(reps):
        ctx.fail("bilinear_contract", "arity", detail=f"{cname}._bilinear_derivative returned {len(result)} entries for {len(reps)} representation tensors",
                 **dict(kw, tags=set(kw["tags"]) | {"at:" + cname}))
        return
    try:
        copies = [r.detach().clone().requires_grad_(True) if r.dtype.is_floating_point else r.detach() for r in reps]
        op2 = self.representation_tree()(*copies)
        D = model.denote(op2, grad=True)
    except model.Unknown:
        ctx.stat("bilinear_on_class_outside_model:" + cname)
        return
    except Exception as e:  # noqa: BLE001
        ctx.stat("bilinear_reference_failed:" + cname + ":" + type(e).__name__)
        return
    U, V = left_vecs.detach(), right_vecs.detach()
    try:
        s = (U * (D.to(U.dtype) @ V)).sum()
        fl = [c for c in copies if c.dtype.is_floating_point]
        ref = torch.autograd.grad(s, fl, allow_unused=True) if s.requires_grad else [None] * len(fl)
    except Exception as e:  # noqa: BLE001
        ctx.stat("bilinear_reference_failed:" + cname + ":" + type(e).__name__)
        return
    ref = iter(ref)
    ipos = interp_value_positions(self, reps)
    f64 = D.dtype == torch.float64
    tol = 1e-7 if f64 else 2e-3
    ctx.stat("bilinear_calls_checked")
    for i, (r, g) in enumerate(zip(reps, result)):
        if not r.dtype.is_floating_point:
            continue
        e = next(ref)
        if g is None:
            if r.requires_grad and e is not None and float(e.abs().max()) > 0:
                ctx.fail("bilinear_contract", "missing", detail=f"{cname}._bilinear_derivative: entry {i} is None although the tensor requires grad (expected norm {float(e.norm()):.2e})",
                         **dict(kw, tags=set(kw["tags"]) | {"at:" + cname} | ({"nested_interp_values"} if i in ipos else set())))
            continue
        if not torch.is_tensor(g):
            ctx.fail("bilinear_contract", "type", detail=f"{cname}._bilinear_derivative: entry {i} is {type(g).__name__}", **dict(kw, tags=set(kw["tags"]) | {"at:" + cname}))
            continue
        if tuple(g.shape) != tuple(r.shape):
            try:
                g = g.sum_to_size(r.shape)
            except RuntimeError:
                ctx.fail("bilinear_contract", "shape", detail=f"{cname}._bilinear_derivative: entry {i} has shape {tuple(g.shape)}, not reducible to its tensor's {tuple(r.shape)}",
                         **dict(kw, tags=set(kw["tags"]) | {"at:" + cname}))
                continue
        e = torch.zeros_like(r) if e is None else e
        sc = max(float(e.abs().max()), float(U.abs().max()) * float(V.abs().max()) * 1e-3, 1e-300)
        err = float((g.detach().to(torch.float64) - e.to(torch.float64)).abs().max()) / sc
        if not err <= tol:
            ctx.fail("bilinear_contract", "value", err=err, detail=f"{cname}._bilinear_derivative: entry {i} differs from the dense-model gradient by {err:.2e}",
                     **dict(kw, tags=set(kw["tags"]) | {"at:" + cname}))
        else:
            ctx.ok("bilinear_contract", f"{cname}|{kw['cls']}|{U.dim() - D.dim()}", True)


def setup(ctx):
    import linear_operator.operators as O
    from linear_operator.operators._linear_operator import LinearOperator

    seen = set()
    classes = [LinearOperator] + [getattr(O, n) for n in dir(O)]
    for c in classes:
        if not isinstance(c, type) or not issubclass(c, LinearOperator) or c in seen:
            continue
        seen.add(c)
        f = c.__dict__.get("_bilinear_derivative")
        if f is None or getattr(f, "_lomon", False):
            continue

        def make(f):
            def wrapped(self, left_vecs, right_vecs):
                _DEPTH[0] += 1
                try:
                    res = f(self, left_vecs, right_vecs)
                finally:
                    _DEPTH[0] -= 1
                if _CTX[0] is not None and not _BUSY[0]:
                    _BUSY[0] = True
                    try:
                        with torch.enable_grad(), warnings.catch_warnings():
                            warnings.simplefilter("ignore")
                            _check_bilinear(self, left_vecs, right_vecs, res)
                    finally:
                        _BUSY[0] = False
                return res

            wrapped._lomon = True
            return wrapped

        setattr(c, "_bilinear_derivative", make(f))


_BUSY = [False]

# ---------------------------------------------------------------------------------------------------------------------------------


def gen_cases(ctx):
    rng = ctx.rng
    classes = list(zoo.ALL_CLASSES)
    i = ctx.shard
    j = ctx.shard
    while True:
        root = classes[i % len(classes)]
        i += 1
        entry = ENTRIES[j % len(ENTRIES)]
        j += ctx.nshards + (1 if i % len(classes) == 0 else 0)
        n = rng.choice([1, 2, 3, 4, 5, 6])
        if entry in PD_ONLY:
            kind, m = "pd", n
        else:
            kind = rng.choice(["pd", "square", "rect", "sym", "psd"])
            m = n if kind != "rect" else rng.choice([1, 2, 3, 4, 6])
        if entry in ("diagonal",) and kind == "rect":
            kind, m = "square", n
        batch = rng.choice([[], [], [2], [3, 2], [1]])
        spec = zoo.gen_spec(rng, kind, n, m, batch, depth=rng.choice([1, 1, 2]), dtype=rng.choice(["f64", "f64", "f64", "f32"]), root=root)
        if spec is None:
            continue
        cfg = dict(max_cholesky_size=rng.choice([None, None, 0]), memory_efficient=rng.choice([False, True]))
        yield dict(spec=spec, entry=entry, cfg=cfg, rseed=rng.randrange(1 << 30), p_flag=rng.choice([1.0, 1.0, 0.5, 0.3]), p_expand=rng.choice([0.0, 0.3, 0.6]),
                   rhs_grad=rng.random() < 0.6)


def make_leaves(op, g, p_flag, p_expand):
    """-> (leaves, build): leaves = fresh leaf parameters; build(leaves) -> list of representation tensors"""
    reps = list(op.representation())
    plan = []
    leaves = []
    any_flag = False
    for t in reps:
        if not t.dtype.is_floating_point:
            plan.append(("const", t))
            continue
        expand = t.dim() >= 2 and t.shape[0] > 1 and float(torch.rand((), generator=g)) < p_expand
        p = (t[:1] if expand else t).detach().clone().contiguous()
        flag = float(torch.rand((), generator=g)) < p_flag
        any_flag = any_flag or flag
        plan.append(("expand" if expand else "leaf", len(leaves), tuple(t.shape)))
        leaves.append([p, flag])
    if not any_flag and leaves:
        leaves[int(torch.randint(len(leaves), (), generator=g))][1] = True
    for lf in leaves:
        lf[0].requires_grad_(lf[1])

    def build(ps):
        out = []
        for item in plan:
            if item[0] == "const":
                out.append(item[1])
            elif item[0] == "leaf":
                out.append(ps[item[1]])
            else:
                out.append(ps[item[1]].expand(item[2]))
        return out

    build.rep2leaf = [None if it[0] == "const" else it[1] for it in plan]
    return [lf[0] for lf in leaves], [lf[1] for lf in leaves], build, sum(1 for it in plan if it[0] == "expand")


def _sym(D):
    return (D + D.mT) / 2


class _InvSqrt(torch.autograd.Function):
    """A -> A^{-1/2} for symmetric positive definite A with the Daleckii-Krein derivative (finite for repeated eigenvalues, where
    differentiating through eigh is not)"""

    @staticmethod
    def forward(ctx, A):
        w, Q = torch.linalg.eigh(A)
        f = w.clamp_min(1e-300).rsqrt()
        ctx.save_for_backward(w, Q, f)
        return (Q * f.unsqueeze(-2)) @ Q.mT

    @staticmethod
    def backward(ctx, G):
        w, Q, f = ctx.saved_tensors
        dw = w.unsqueeze(-1) - w.unsqueeze(-2)
        df = f.unsqueeze(-1) - f.unsqueeze(-2)
        fp = -0.5 * w.clamp_min(1e-300).pow(-1.5)
        close = dw.abs() <= 1e-6 * w.abs().max(-1, keepdim=True)[0].unsqueeze(-1)
        F = torch.where(close, (fp.unsqueeze(-1) + fp.unsqueeze(-2)) / 2, df / torch.where(close, torch.ones_like(dw), dw))
        Gs = (G + G.mT) / 2
        return Q @ (F * (Q.mT @ Gs @ Q)) @ Q.mT


def _msqrt_inv(D):
    # in float64 whatever the operator's dtype: divided differences of nearly equal float32 eigenvalues are noise
    return _InvSqrt.apply(_sym(D).to(torch.float64)).to(D.dtype)


def run_entry(entry, op, D, R, L, W_of, idx):
    """-> (library output, dense output) as tensors (or tuples flattened to one tensor)"""
    if entry in ("matmul", "matmul_bcast", "matmul_bcast2", "matmul_vec"):
        return op @ R, D @ R
    if entry == "rmatmul":
        return L @ op, L @ D
    if entry == "solve":
        return op.solve(R), torch.linalg.solve(_sym(D), R)
    if entry == "solve_left":
        return op.solve(R, L), L @ torch.linalg.solve(_sym(D), R)
    if entry == "inv_quad":
        return op.inv_quad(R), (R * torch.linalg.solve(_sym(D), R)).sum((-2, -1))
    if entry == "logdet":
        return op.logdet(), torch.logdet(_sym(D))
    if entry == "inv_quad_logdet":
        iq, ld = op.inv_quad_logdet(R, logdet=True)
        return iq + 0.5 * ld, (R * torch.linalg.solve(_sym(D), R)).sum((-2, -1)) + 0.5 * torch.logdet(_sym(D))
    if entry == "diagonal":
        return op.diagonal(), D.diagonal(dim1=-2, dim2=-1)
    if entry == "to_dense":
        return op.to_dense(), D
    if entry == "getitem":
        a = op[idx]
        return (a.to_dense() if not torch.is_tensor(a) else a), D[idx]
    if entry == "sum_batch":
        a = op.sum(0)
        return (a.to_dense() if not torch.is_tensor(a) else a), D.sum(0)
    if entry == "root":
        Rt = op.root_decomposition().root
        Rt = Rt.to_dense() if not torch.is_tensor(Rt) else Rt
        return Rt @ Rt.mT, _sym(D)
    if entry == "root_inv":
        Rt = op.root_inv_decomposition().root
        Rt = Rt.to_dense() if not torch.is_tensor(Rt) else Rt
        return Rt @ Rt.mT, torch.linalg.inv(_sym(D))
    if entry == "pchol":
        Lp = op.pivoted_cholesky(rank=D.shape[-1], error_tol=1e-14)
        Lp = Lp.to_dense() if not torch.is_tensor(Lp) else Lp
        return Lp @ Lp.mT, _sym(D)
    if entry == "sqrt_inv_matmul":
        res = op.sqrt_inv_matmul(R)
        return res, _msqrt_inv(D) @ R
    if entry == "add_diag_solve":
        return op.add_jitter(0.5).solve(R), torch.linalg.solve(_sym(D) + 0.5 * torch.eye(D.shape[-1], dtype=D.dtype), R)
    if entry == "mul_const":
        return (op * 1.7) @ R, (D * 1.7) @ R
    raise ValueError(entry)


def run_case(case, ctx):
    spec, entry, cfg = case["spec"], case["entry"], case["cfg"]
    b = common.try_build(spec, ctx)
    if b is None:
        return
    op0 = b.op
    n, m = spec["n"], spec["m"]
    dt = zoo.DT[spec["dtype"]]
    f64 = dt == torch.float64
    g = torch.Generator().manual_seed(case["rseed"])
    tags = common.spec_tags(spec)

    def _rank_deficient(sp):
        return (sp["kind"] == "psd" and sp["opt"].get("rank", sp["n"]) < sp["n"]) or any(_rank_deficient(c) for c in sp["children"])

    if _rank_deficient(spec) and entry in SYM_ONLY:
        tags = set(tags) | {"singular_psd_summand"}
    path = zoo.class_path(spec, 2)
    iterative = cfg.get("max_cholesky_size") == 0 and entry in SYM_ONLY
    kw = dict(cls=spec["cls"], path=path, tags=set(tags), info=common.spec_info(spec) | {"entry:" + entry, "cfg:" + settings_key(cfg)})
    if entry == "sum_batch" and not spec["batch"]:
        ctx.stat("skipped:sum_batch_without_batch")
        return
    try:
        leaves, flags, build, n_exp = make_leaves(op0, g, case["p_flag"], case["p_expand"])
        tree = op0.representation_tree()
    except Exception as e:  # noqa: BLE001
        ctx.stat("representation_failed:" + type(e).__name__)
        return
    if not leaves:
        ctx.stat("no_float_leaves")
        return

    def rebuild(ps):
        return tree(*build(ps))

    def structure_masks(op_, reps_):
        """leaf index -> 0/1 mask of the entries that exist in the structure (the stored tensor of a TriangularLinearOperator is only
        meaningful on its triangle: perturbing the other one leaves the class)"""
        from linear_operator.operators import DenseLinearOperator, TriangularLinearOperator

        masks = {}

        def walk(o):
            if isinstance(o, TriangularLinearOperator) and isinstance(getattr(o, "_tensor", None), DenseLinearOperator):
                for k, r in enumerate(reps_):
                    if r is o._tensor.tensor:
                        masks[k] = torch.triu(torch.ones_like(r)) if o.upper else torch.tril(torch.ones_like(r))
            for a_ in list(getattr(o, "_args", ())) + list(getattr(o, "_kwargs", {}).values()):
                if hasattr(a_, "_args"):
                    walk(a_)

        walk(op_)
        return masks

    reps_now = build(leaves)
    op, ex = compare.attempt(lambda: tree(*reps_now))
    if ex is not None:
        if compare.explicit_unsupported(ex):
            ctx.stat("rebuild_unsupported")
        else:
            ctx.fail("rebuild", "exception", exc=ex, **kw)
        return
    ipos = interp_value_positions(op, list(op.representation()))  # same order as reps_now (constructors may re-wrap the tensors)
    interp_leaf_idx = {build.rep2leaf[k] for k in ipos if build.rep2leaf[k] is not None}
    if case.get("_unflag_interp"):
        for li in interp_leaf_idx:
            leaves[li].requires_grad_(False)
            flags[li] = False
        if not any(flags):
            return
    try:
        D = model.denote(op, grad=True)
    except model.Unknown as e:
        ctx.stat("class_outside_model:" + str(e))
        return
    # the differentiable model must denote what the operator computes (otherwise nothing below is meaningful)
    with torch.no_grad():  # on a separate rebuild: to_dense() is memoized
        td, ex = compare.attempt(lambda: rebuild([p.detach() for p in leaves]).to_dense())
    if ex is not None or tuple(td.shape) != tuple(D.shape) or not compare.relerr(td, D.detach()) <= (1e-9 if f64 else 1e-4):
        ctx.stat("model_disagrees_with_to_dense_not_judged")
        return
    batch = list(D.shape[:-2])
    kappa = 1.0
    if entry in SYM_ONLY:
        Dd = D.detach()
        if float((Dd - Dd.mT).abs().max()) > (1e-10 if f64 else 1e-5) * float(Dd.abs().max()):
            ctx.stat("expanded_leaves_broke_symmetry_not_judged")  # e.g. x1 of a kernel expanded, x2 not
            return
        if float(torch.linalg.eigvalsh(_sym(Dd).to(torch.float64)).min()) <= 0:
            ctx.stat("expanded_leaves_broke_definiteness_not_judged")
            return
        kappa = float(compare.cond(_sym(D.detach()).to(torch.float64)))
        if not kappa < 1e4:
            ctx.stat("ill_conditioned_not_judged")
            return
    # right-hand sides
    k = 1 + int(torch.randint(3, (), generator=g))
    # matmul_bcast2: a right-hand side whose batch has a singleton BEHIND a non-singleton dimension ((2,1) against an operator batch (b,),
    # (b0,1) against (b0,b1)): its gradient has to be summed over an inner broadcast dimension
    bc2 = [batch[0], 1] if len(batch) == 2 else [2, 1]
    rshape = {"matmul_vec": [m], "matmul_bcast": [2] + batch + [m, k], "matmul_bcast2": bc2 + [m, k]}.get(entry, batch + [m if entry in ("matmul", "mul_const") else n, k])
    if entry in ("matmul_vec", "matmul_bcast", "matmul", "mul_const"):
        pass
    R = torch.randn(tuple(rshape), generator=g, dtype=torch.float64).to(dt).requires_grad_(case["rhs_grad"])
    # the left factor's flag is independent of the right-hand side's (a positional needs_input_grad slip shows only in mixed subsets)
    L = torch.randn(*batch, 2, n, generator=g, dtype=torch.float64).to(dt).requires_grad_(bool((case["rseed"] >> 3) % 2))
    idx = (Ellipsis, slice(0, max(1, n - 1)), slice(None)) if float(torch.rand((), generator=g)) < 0.5 else (Ellipsis, int(torch.randint(n, (), generator=g)), slice(None))

    if entry in ("bilinear", "bilinear_extra_dim"):
        extra = [3] if entry == "bilinear_extra_dim" else []
        U = torch.randn(*extra, *batch, n, k, generator=g, dtype=torch.float64).to(dt)
        V = torch.randn(*extra, *batch, m, k, generator=g, dtype=torch.float64).to(dt)
        _CTX[0], _KW[0] = ctx, kw
        try:
            with settings_stack(cfg, n), warnings.catch_warnings():
                warnings.simplefilter("ignore")
                res, ex = compare.attempt(lambda: op._bilinear_derivative(U, V))
        finally:
            _CTX[0] = None
        if ex is not None:
            if compare.explicit_unsupported(ex):
                ctx.stat("unsupported:" + entry)
            else:
                ctx.fail(entry, "exception", exc=ex, **kw)
        else:
            ctx.stat("grads_compared")  # judged by the post-condition monitor
        return

    probes = ProbeBasis(n)
    _CTX[0], _KW[0] = ctx, kw
    try:
        with settings_stack(cfg, n), warnings.catch_warnings(), probes:
            warnings.simplefilter("ignore")
            from linear_operator import settings

            with settings.num_trace_samples(60), settings.cg_tolerance(1e-10 if f64 else 1e-5), settings.max_cg_iterations(4 * n + 20), \
                    settings.max_lanczos_quadrature_iterations(n + 2), settings.skip_logdet_forward(False):
                torch.manual_seed(case["rseed"])
                out, ex = compare.attempt(lambda: run_entry(entry, op, D, R, L, None, idx))
                if ex is not None:
                    # does the forward computation raise without autograd as well?  then it is C01 / C04 / C05 / C06's subject
                    with torch.no_grad():
                        _, ex0 = compare.attempt(lambda: run_entry(entry, rebuild([p.detach() for p in leaves]), D.detach(), R.detach(), L.detach(), None, idx))
                    if ex0 is not None and ex0.type == ex.type:
                        ctx.stat("forward_raises_without_autograd_too_not_judged")
                        return
                if ex is None:
                    lib, ref = out
                    if tuple(lib.shape) != tuple(ref.shape):
                        ctx.stat("forward_shape_differs_not_judged(C01/C04)")
                        return
                    ftol = (2e-3 if iterative else 1e-6 * max(1.0, kappa)) if f64 else 5e-3 * max(1.0, kappa / 10)
                    if not compare.relerr(lib.detach(), ref.detach(), scale=1e-9) <= ftol:
                        ctx.stat("forward_value_differs_not_judged(C01/C04/C05/C06)")
                        return
                    W = torch.randn(tuple(lib.shape), generator=g, dtype=torch.float64).to(dt)
                    if entry in ("root", "root_inv", "pchol"):
                        W = _sym(W)
                    wrt = [p for p, f in zip(leaves, flags) if f] + ([R] if R.requires_grad and entry not in ("logdet", "diagonal", "to_dense", "getitem", "sum_batch", "root", "root_inv", "pchol", "rmatmul") else []) \
                        + ([L] if L.requires_grad and entry in ("rmatmul", "solve_left") else [])
                    s_lib = (W * lib).sum()
                    s_ref = (W * ref).sum()
                    if not s_lib.requires_grad:
                        g0 = torch.autograd.grad(s_ref, wrt, allow_unused=True) if s_ref.requires_grad else []
                        if any(x is not None and float(x.abs().max()) > 0 for x in g0):
                            ctx.fail(entry, "no-grad", detail="the library's output does not require grad although it depends on leaves that do", **kw)
                        else:
                            ctx.stat("output_independent_of_flagged_leaves")
                        return
                    glib, ex = compare.attempt(lambda: torch.autograd.grad(s_lib, wrt, allow_unused=True))
    finally:
        _CTX[0] = None
    if ex is not None:
        if compare.explicit_unsupported(ex):
            ctx.stat("unsupported:" + entry)
        elif ex.type == "NotPSDError" or ex.type == "NanError":
            ctx.stat("not_psd_not_judged")
        else:
            ctx.fail(entry, "exception", exc=ex, **kw)
        return
    gref = torch.autograd.grad(s_ref, wrt, allow_unused=True)
    if iterative and not f64:
        ctx.stat("float32_iterative_not_judged")
        return
    tol = (3e-2 * max(1.0, kappa / 20) if iterative else 1e-6 * max(1.0, kappa)) if f64 else 2e-2 * max(1.0, kappa / 10)
    if entry in ("sqrt_inv_matmul",):
        tol = max(tol, 1e-3 * max(1.0, kappa / 10))
    # tangent space of the symmetric manifold (entry points that are only defined on symmetric matrices)
    nleaf = sum(flags)
    proj = None
    if entry in SYM_ONLY and nleaf:
        fl = [p for p, f in zip(leaves, flags) if f]

        def asym(*ps):
            it = iter(ps)
            full = [next(it) if f else p for p, f in zip(leaves, flags)]
            Dm = model.denote(rebuild(full), grad=True)
            return (Dm - Dm.mT).reshape(-1)

        J = torch.autograd.functional.jacobian(asym, tuple(fl))
        J = torch.cat([j.reshape(j.shape[0], -1) for j in J], -1).to(torch.float64)
        if float(J.abs().max()) > 1e-12:
            _, S, Vh = torch.linalg.svd(J, full_matrices=True)
            rank = int((S > 1e-9 * S[0]).sum())
            proj = Vh[rank:].mT  # columns span the null space
            ctx.stat("compared_on_symmetric_tangent_space")
            if proj.shape[-1] == 0:
                ctx.stat("no_symmetric_direction_among_flagged_leaves")
                proj = "none"
    masks = {}
    for k, mk in structure_masks(op, list(op.representation())).items():
        li = build.rep2leaf[k]
        if li is not None:
            masks[id(leaves[li])] = mk[: leaves[li].shape[0]] if mk.dim() and mk.shape != leaves[li].shape else mk
    if masks:
        ctx.stat("triangular_leaves_compared_on_their_triangle")
        glib = [None if a is None else (a * masks[id(w)] if id(w) in masks else a) for a, w in zip(glib, wrt)]
        gref = [None if a is None else (a * masks[id(w)] if id(w) in masks else a) for a, w in zip(gref, wrt)]
    interp_leaves = {id(leaves[li]) for li in interp_leaf_idx}
    # a gradient that vanishes by cancellation is judged on the scale of the quantities it is formed from, not on its own
    gfloor = (1e-3 if not f64 else 1e-9) * float(W.abs().max()) * max(1.0, float(lib.detach().abs().max()))
    worst = 0.0
    gl_leaf, gr_leaf = [], []
    names = [f"leaf{i}" for i, f in enumerate(flags) if f] + ["rhs"] * (len(wrt) - nleaf)
    for nm, a, r_, w in zip(names, glib, gref, wrt):
        a = torch.zeros_like(w) if a is None else a
        r_ = torch.zeros_like(w) if r_ is None else r_
        if tuple(a.shape) != tuple(w.shape):
            ctx.fail(entry, "grad-shape", detail=f"gradient for {nm} has shape {tuple(a.shape)}, tensor {tuple(w.shape)}", **kw)
            return
        if nm.startswith("leaf") and proj is not None:
            gl_leaf.append(a.reshape(-1).to(torch.float64))
            gr_leaf.append(r_.reshape(-1).to(torch.float64))
            continue
        sc = max(float(r_.abs().max()), gfloor)
        err = float((a.to(torch.float64) - r_.to(torch.float64)).abs().max()) / sc
        worst = max(worst, err) if err == err else float("nan")
        if not err <= tol:
            if os.environ.get("LOMON_DEBUG"):
                print("DEBUG", nm, tuple(w.shape), "lib", a.flatten()[:8].tolist(), "ref", r_.flatten()[:8].tolist(), "rshape", tuple(R.shape), "out", tuple(lib.shape))
            ctx.fail(entry, "grad-value", err=err, detail=f"gradient w.r.t. {nm} differs from the dense computation's by {err:.2e} (tol {tol:.1e})",
                     **dict(kw, tags=set(tags) | {"wrt:" + ("rhs" if nm == "rhs" else "leaf")} | ({"nested_interp_values"} if id(w) in interp_leaves else set()) | ({"lib_grad_zero"} if float(a.abs().max()) == 0 else set()), info=kw["info"] | {f"expanded_leaves:{n_exp}", "flags:" + "".join("1" if f else "0" for f in flags)}))
            return
    if gl_leaf and not isinstance(proj, str):
        a = proj.mT @ torch.cat(gl_leaf)
        r_ = proj.mT @ torch.cat(gr_leaf)
        sc = max(float(r_.abs().max()), gfloor)
        err = float((a - r_).abs().max()) / sc
        worst = max(worst, err) if err == err else float("nan")
        if not err <= tol:
            extra = set()
            if any(flags[li] for li in interp_leaf_idx) and not case.get("_unflag_interp"):
                # is the difference confined to the interpolation values of a nested InterpolatedLinearOperator?  re-run with those constant
                col = common.Collector()
                run_case(dict(case, _unflag_interp=True), col)
                if not any(o == entry for o, m_, k_ in col.fails):
                    extra = {"nested_interp_values"}
            ctx.fail(entry, "grad-value", err=err, detail=f"gradient w.r.t. the leaves, on symmetric directions, differs from the dense computation's by {err:.2e} (tol {tol:.1e})",
                     **dict(kw, tags=set(tags) | {"wrt:leaf"} | extra, info=kw["info"] | {f"expanded_leaves:{n_exp}", "flags:" + "".join("1" if f else "0" for f in flags)}))
            return
    ctx.stat("grads_compared")
    if probes.served:
        ctx.stat("stochastic_trace_with_probe_basis")
    if probes.unserved:
        ctx.stat("stochastic_trace_with_random_probes")
    pat = "all" if all(flags) else "subset"
    ctx.ok(entry, f"{spec['cls']}|{entry}|{settings_key(cfg)}|{pat}|exp{min(n_exp, 1)}", True,
           sample=dict(spec=zoo.class_path(spec, 3), entry=entry, cfg=settings_key(cfg), flags=flags, expanded=n_exp, worst_rel_err=worst))


def finish(ctx):
    # thorough tier, shard 0: the repository's own test-suite as a second workload under this property's monitor
    from .. import suite

    suite.ingest(ctx, "bilinear", "bilinear_contract")
