"""C02 - composition and structure-preserving rewrites never change the matrix (shadow execution)."""
import random

import torch

from .. import compare, zoo
from . import common

BUDGET = {"quick": dict(seconds=45, cases=10**9), "thorough": dict(seconds=720, cases=10**9)}
RULE = ("cases: expression programs of 1-3 steps over operators from the typed zoo: binary + - @ * between every ordered pair of "
        "classes (swept by shard) and operator/tensor in both orders, scalar * and / (python float, 0-d tensor, batch of constants, "
        "negative, zero), neg, cat, sum/prod(dim), expand/repeat/squeeze/unsqueeze/permute/transpose, add_diagonal (0-d, (1,), (n,), "
        "batched), add_jitter, add_low_rank, cat_rows; PSD/PD operands for the root-decomposition based operations. oracle: shadow "
        "execution of every step on dense tensors with torch semantics (shape and value after each step); explicit not-supported "
        "errors accepted and counted. Failing binary cases are shrunk by replacing either operand with a dense operator of the same "
        "value. distinct key = (operation, left class, right class / operand kind, batch rank, dtype) [round 4: `repeat` is followed by further steps with one more batch dimension than the operand had]")
ASSUMPTIONS = ["torch broadcasting semantics of the dense shadow program are the specification", "lomon/model.py and zoo dense builders",
               "direct-method tolerance (compare.tol_direct) for operations defined through Cholesky root decompositions"]
REQUIRED_STATS = ("steps",)

BIN_OPS = ["add", "sub", "matmul", "mul", "radd_tensor", "rsub_tensor", "add_tensor", "sub_tensor", "mul_tensor"]
UNARY = ["scalar_mul", "scalar_rmul", "scalar_div", "sum", "prod", "expand", "repeat", "squeeze", "unsqueeze", "permute",
         "transpose", "add_diagonal", "add_jitter", "add_low_rank", "cat_rows", "cat", "mul_scalar_method", "div_method"]
ROOTFORM = {"Root", "LowRankRoot", "Chol"}
PSD_OPS = {"mul", "mul_tensor", "add_low_rank", "cat_rows", "prod"}


def _dt(spec):
    return zoo.DT[spec["dtype"]]


def gen_cases(ctx):
    rng = ctx.rng
    classes = list(zoo.ALL_CLASSES)
    pairs = [(a, b) for a in classes for b in classes]
    rng2 = random.Random(1234 + ctx.seed)
    rng2.shuffle(pairs)
    i = ctx.shard
    while True:
        if rng.random() < 0.5:
            a, b = pairs[i % len(pairs)]
            i += ctx.nshards
            op = rng.choice(["add", "sub", "matmul", "mul", "add", "matmul"])
            case = _gen_binary(rng, a, b, op)
        else:
            case = _gen_unary(rng, rng.choice(classes), rng.choice(UNARY + BIN_OPS[4:]))
        if case is not None:
            case["followups"] = [rng.choice(["transpose", "scalar_mul", "scalar_div", "add_jitter", "sum", "unsqueeze", "expand", "add_tensor", "squeeze", "repeat", "repeat"])
                                 for _ in range(rng.choice([0, 0, 1, 2]))]
            case["rseed"] = rng.randrange(1 << 30)
            yield case


def _sizes(rng):
    return rng.choice([2, 3, 4, 4, 6])


def _gen_binary(rng, a, b, op):
    dtype = rng.choice(["f64", "f64", "f32"])
    n = _sizes(rng)
    batch = rng.choice([[], [], [2], [2, 1], [3, 2]])
    bb = zoo.sub_batches(batch, rng)
    if op == "mul":
        kinds = ("pd", "pd")
        m = k = n
    elif op == "matmul":
        kinds = (rng.choice(["rect", "square", "pd"]), rng.choice(["rect", "square", "pd"]))
        m = n if kinds[0] != "rect" else rng.choice([1, 2, 3, 4])
        k = m if kinds[1] != "rect" else rng.choice([1, 2, 3])
    else:
        kd = rng.choice(["rect", "square", "sym", "psd", "pd"])
        if a in ROOTFORM or b in ROOTFORM:
            kd = "pd"  # adding a root-form operator goes through add_low_rank: operands range over PD operators
        kinds = (kd, kd)
        m = n if kd != "rect" else rng.choice([1, 2, 3, 4])
        k = m
    sa = zoo.gen_spec(rng, kinds[0], n, m, batch, depth=rng.choice([1, 1, 2]), dtype=dtype, root=a)
    if op == "matmul":
        sb = zoo.gen_spec(rng, kinds[1], m, k, bb, depth=rng.choice([1, 1, 2]), dtype=dtype, root=b)
    else:
        sb = zoo.gen_spec(rng, kinds[1], n, m, bb, depth=rng.choice([1, 1, 2]), dtype=dtype, root=b)
    if sa is None or sb is None:
        return None
    return dict(op=op, left=sa, right=sb, params={})


def _gen_unary(rng, a, op):
    dtype = rng.choice(["f64", "f64", "f32"])
    n = _sizes(rng)
    batch = rng.choice([[], [], [2], [1], [2, 1], [3, 2]])
    kind = "pd" if op in PSD_OPS or op in ("cat_rows",) else rng.choice(["rect", "square", "sym", "psd", "pd"])
    if op in ("add_diagonal", "add_jitter") and kind == "rect":
        kind = "square"
    m = n if kind != "rect" else rng.choice([1, 2, 3, 4])
    if op == "prod":
        batch = rng.choice([[2], [3], [2, 2]])
    sa = zoo.gen_spec(rng, kind, n, m, batch, depth=rng.choice([1, 1, 2]), dtype=dtype, root=a)
    if sa is None:
        return None
    p = {}
    shape = list(batch) + [n, m]
    nb = len(batch)
    if op in ("scalar_mul", "scalar_rmul", "scalar_div", "mul_scalar_method", "div_method"):
        p["ckind"] = rng.choice(["pyfloat", "pyint", "tensor0", "batch", "negative", "zero"] if "div" not in op else ["pyfloat", "tensor0", "batch", "negative"])
    elif op == "sum":
        p["dim"] = rng.choice([None] + list(range(-len(shape), 0)))
    elif op == "prod":
        p["dim"] = rng.choice(list(range(-len(shape), -2)))
    elif op == "expand":
        lead = rng.choice([[], [2], [3, 1]])
        p["sizes"] = lead + [(-1 if (rng.random() < 0.3 or b != 1) else rng.choice([1, 2, 3])) if b != 1 else rng.choice([1, 2, 3]) for b in batch] + rng.choice([[n, m], [-1, -1]])
    elif op == "repeat":
        p["sizes"] = rng.choice([[], [2]]) + [rng.choice([1, 2]) for _ in batch] + [rng.choice([1, 1, 2]), rng.choice([1, 1, 2])]
    elif op == "squeeze":
        p["dim"] = rng.choice(list(range(-len(shape), 0)))
    elif op == "unsqueeze":
        p["dim"] = rng.choice(list(range(-len(shape) - 1, -1)) + list(range(0, nb + 1)))
    elif op == "permute":
        perm = list(range(nb))
        rng.shuffle(perm)
        p["dims"] = perm + [nb, nb + 1]  # the library declares permutations of the matrix dimensions unsupported
    elif op == "transpose":
        d = list(range(-len(shape), 0))
        if rng.random() < 0.5 or nb < 2:
            p["dims"] = [-1, -2] if rng.random() < 0.5 else [-2, -1]
        else:
            p["dims"] = rng.sample(list(range(-len(shape), -2)), 2)
    elif op == "add_diagonal":
        p["dkind"] = rng.choice(["0d", "one", "n", "batch_one", "batch_n", "subbatch_n"])
    elif op == "add_jitter":
        p["val"] = rng.choice([1e-3, 0.5, 2.0])
    elif op == "add_low_rank":
        p["rank"] = rng.choice([1, 2])
        p["as_op"] = rng.random() < 0.3
    elif op == "cat_rows":
        p["k"] = rng.choice([1, 2])
    elif op == "cat":
        p["dim"] = rng.choice([-2, -1] + ([0] if nb else []))
        p["other"] = rng.choice(["tensor", "same", "dense_op"])
    elif op in ("radd_tensor", "rsub_tensor", "add_tensor", "sub_tensor", "mul_tensor"):
        p["tbatch"] = rng.choice(["same", "none", "more"])
    return dict(op=op, left=sa, right=None, params=p)


# ------------------------------------------------------------------ step semantics
def _const(kind, batch, dt, g):
    if kind == "pyfloat":
        return 1.7, 1.7
    if kind == "pyint":
        return 3, 3.0
    if kind == "zero":
        return 0.0, 0.0
    if kind == "negative":
        return -0.6, -0.6
    if kind == "tensor0":
        c = torch.tensor(0.8, dtype=dt)
        return c, c
    c = (0.5 + torch.rand(tuple(batch), generator=g, dtype=torch.float64)).to(dt)
    return c.reshape(*batch, 1, 1), c.reshape(*batch, 1, 1)


def apply_step(op, params, obj, dense, spec_shape_info, g, right=None):
    """-> (lib thunk, dense thunk, info-tags).  obj may be an operator (or tensor for follow-ups)"""
    from linear_operator import operators as O

    dt = dense.dtype
    batch = list(dense.shape[:-2])
    n, m = dense.shape[-2:]
    p = params

    def randn(*shape):
        return torch.randn(tuple(shape), generator=g, dtype=torch.float64).to(dt)

    if op == "add":
        return (lambda: obj + right.op), (lambda: dense + right.dense), ()
    if op == "sub":
        return (lambda: obj - right.op), (lambda: dense - right.dense), ()
    if op == "matmul":
        return (lambda: obj @ right.op), (lambda: dense @ right.dense), ()
    if op == "mul":
        return (lambda: obj * right.op), (lambda: dense * right.dense), ()
    if op in ("add_tensor", "radd_tensor", "sub_tensor", "rsub_tensor", "mul_tensor"):
        tb = p.get("tbatch", "same")
        tbatch = batch if tb == "same" else ([] if tb == "none" else [2] + batch)
        if op == "mul_tensor":
            f = randn(*tbatch, n, n + 1)
            t = f @ f.mT / n + torch.eye(n, dtype=dt)
        else:
            t = randn(*tbatch, n, m)
        if op == "add_tensor":
            return (lambda: obj + t), (lambda: dense + t), ("tensor:" + tb,)
        if op == "radd_tensor":
            return (lambda: t + obj), (lambda: t + dense), ("tensor:" + tb,)
        if op == "sub_tensor":
            return (lambda: obj - t), (lambda: dense - t), ("tensor:" + tb,)
        if op == "rsub_tensor":
            return (lambda: t - obj), (lambda: t - dense), ("tensor:" + tb,)
        return (lambda: obj * t), (lambda: dense * t), ("tensor:" + tb,)
    if op in ("scalar_mul", "scalar_rmul", "scalar_div", "mul_scalar_method", "div_method"):
        ck = p.get("ckind", "pyfloat")
        c, cd = _const(ck, batch, dt, g)
        if op == "scalar_mul":
            return (lambda: obj * c), (lambda: dense * cd), ("c:" + ck,)
        if op == "scalar_rmul":
            return (lambda: c * obj), (lambda: cd * dense), ("c:" + ck,)
        if op == "mul_scalar_method":
            return (lambda: obj.mul(c)), (lambda: dense * cd), ("c:" + ck,)
        if op == "div_method":
            return (lambda: obj.div(c)), (lambda: dense / cd), ("c:" + ck,)
        return (lambda: obj / c), (lambda: dense / cd), ("c:" + ck,)
    if op == "neg":
        return (lambda: -obj), (lambda: -dense), ()
    if op == "sum":
        d = p.get("dim", -3 if batch else None)
        if d is None:
            return (lambda: obj.sum()), (lambda: dense.sum()), ("dim:None",)
        where = "batch" if (d % dense.dim()) < dense.dim() - 2 else "matrix"
        return (lambda: obj.sum(d)), (lambda: dense.sum(d)), ("dim:" + where,)
    if op == "prod":
        d = p["dim"]
        return (lambda: obj.prod(d)), (lambda: dense.prod(d)), ()
    if op == "expand":
        sizes = p.get("sizes") or ([2] + batch + [n, m])
        return (lambda: obj.expand(*sizes)), (lambda: dense.expand(*sizes)), ()
    if op == "repeat":
        sizes = p["sizes"]
        return (lambda: obj.repeat(*sizes)), (lambda: dense.repeat(*sizes)), ()
    if op == "squeeze":
        d = p.get("dim", 0 if batch else -1)
        return (lambda: obj.squeeze(d)), (lambda: dense.squeeze(d)), ()
    if op == "unsqueeze":
        d = p.get("dim", 0)
        return (lambda: obj.unsqueeze(d)), (lambda: dense.unsqueeze(d)), ()
    if op == "permute":
        dims = p["dims"]
        return (lambda: obj.permute(*dims)), (lambda: dense.permute(*dims)), ()
    if op == "transpose":
        d1, d2 = p.get("dims", [-1, -2])
        return (lambda: obj.transpose(d1, d2)), (lambda: dense.transpose(d1, d2)), ()
    if op == "add_diagonal":
        dk = p["dkind"]
        if dk == "0d":
            d = torch.tensor(0.7, dtype=dt)
        elif dk == "one":
            d = torch.tensor([0.7], dtype=dt)
        elif dk == "n":
            d = 0.1 + torch.rand(n, generator=g, dtype=torch.float64).to(dt)
        elif dk == "batch_one":
            d = 0.1 + torch.rand((*batch, 1), generator=g, dtype=torch.float64).to(dt)
        elif dk == "batch_n":
            d = 0.1 + torch.rand((*batch, n), generator=g, dtype=torch.float64).to(dt)
        else:
            sb = batch[1:] if len(batch) > 1 else batch
            d = 0.1 + torch.rand((*sb, n), generator=g, dtype=torch.float64).to(dt)
        dd = d.expand(*batch, n) if d.dim() and d.shape[-1] == n else d.expand(*batch, 1).expand(*batch, n) if d.dim() else d.expand(*batch, n)
        return (lambda: obj.add_diagonal(d)), (lambda: dense + torch.diag_embed(dd)), ("diag:" + dk,)
    if op == "add_jitter":
        v = p.get("val", 1e-3)
        return (lambda: obj.add_jitter(v)), (lambda: dense + v * torch.eye(n, dtype=dt)), ()
    if op == "add_low_rank":
        V = randn(*batch, n, p["rank"])
        arg = O.DenseLinearOperator(V) if p.get("as_op") else V
        return (lambda: obj.add_low_rank(arg)), (lambda: dense + V @ V.mT), ()
    if op == "cat_rows":
        k = p["k"]
        full = randn(*batch, n + k, n + k + 2)
        big = full @ full.mT / (n + k) + torch.eye(n + k, dtype=dt)
        # make [[A, B^T], [B, C]] positive definite: C = B A^{-1} B^T + pd
        B = randn(*batch, k, n) * 0.3
        Ad = dense.to(torch.float64)
        C = (B.to(torch.float64) @ torch.linalg.solve(Ad, B.to(torch.float64).mT)).to(dt) + big[..., :k, :k]
        C = (C + C.mT) / 2
        return ((lambda: obj.cat_rows(B, C)),
                (lambda: torch.cat([torch.cat([dense, B.mT], -1), torch.cat([B, C], -1)], -2)), ())
    if op == "cat":
        d = p["dim"]
        shp = list(dense.shape)
        other_kind = p["other"]
        t = randn(*shp)
        if other_kind == "tensor":
            parts, dparts = [obj, t], [dense, t]
        elif other_kind == "same":
            parts, dparts = [obj, obj], [dense, dense]
        else:
            parts, dparts = [O.DenseLinearOperator(t), obj], [t, dense]
        return (lambda: O.cat(parts, dim=d)), (lambda: torch.cat(dparts, dim=d)), ("cat:" + other_kind, f"dim:{d}")
    raise ValueError(op)


def _densify(x):
    if torch.is_tensor(x):
        return x, None
    if hasattr(x, "to_dense"):
        return compare.attempt(x.to_dense)
    return x, None


def _run_step(op, params, obj, dense, g, right, tol):
    """-> (status, payload, newobj, newdense, extra_tags)  status in ok / unsupported / torch_rejects / fail"""
    lib, ref, extra = apply_step(op, params, obj, dense, None, g, right)
    want, ex0 = compare.attempt(ref)
    if ex0 is not None:
        return "torch_rejects", ex0, None, None, extra
    res, ex = compare.attempt(lib)
    if ex is not None:
        if compare.explicit_unsupported(ex):
            return "unsupported", ex, None, None, extra
        return "fail", ("exception", ex, None, None), None, None, extra
    got, ex = _densify(res)
    if ex is not None:
        return "fail", ("exception", ex, None, None), None, None, tuple(extra) + ("at:to_dense",)
    if not torch.is_tensor(got):
        if isinstance(got, (int, float)) and want.dim() == 0:
            got = torch.tensor(got, dtype=want.dtype)
        else:
            return "fail", ("type", None, None, type(got).__name__), None, None, extra
    if tuple(got.shape) != tuple(want.shape):
        return "fail", ("shape", None, None, f"got {tuple(got.shape)} want {tuple(want.shape)}"), None, None, extra
    err = compare.relerr(got, want)
    if not err <= tol:
        return "fail", ("value", None, err, None), None, None, extra
    return "ok", err, res, want, extra


def run_case(case, ctx):
    op = case["op"]
    sa, sb = case["left"], case["right"]
    A = common.try_build(sa, ctx)
    B = common.try_build(sb, ctx) if sb is not None else None
    if A is None or (sb is not None and B is None):
        return
    g = torch.Generator().manual_seed(case["rseed"])
    dt = A.dense.dtype
    involved = zoo.spec_classes(sa) | (zoo.spec_classes(sb) if sb else set())
    rootbased = op in PSD_OPS or bool(involved & {"Mul"})
    tol = (1e-7 if compare.is64(dt) else 5e-3) if rootbased else max(common.spec_tol(sa), common.spec_tol(sb) if sb else 0)
    tags = common.spec_tags(sa) | (common.spec_tags(sb) if sb else set())
    info = common.spec_info(sa)
    rcls = sb["cls"] if sb else None
    ctx.stat("steps")
    status, payload, obj, dense, extra = _run_step(op, case["params"], A.op, A.dense, g, B, tol)
    key = f"{op}|{sa['cls']}|{rcls or ','.join(extra)}|b{len(sa['batch'])}|{sa['dtype']}"
    path = zoo.class_path(sa, 2) + ((" , " + zoo.class_path(sb, 2)) if sb else "")
    if status == "torch_rejects":
        ctx.stat("torch_rejects:" + op)
        return
    if status == "unsupported":
        ctx.stat(f"unsupported:{op}:{sa['cls']}:{rcls}:{payload.frame}")
        ctx.ok(op + ".unsupported", None, False)
        return
    if status == "fail":
        mode, ex, err, detail = payload
        sig = (mode, ex.type if ex else "", ex.frame if ex else "")

        def same(objL, objR):
            g2 = torch.Generator().manual_seed(case["rseed"])
            st, pl, _, _, _ = _run_step(op, case["params"], objL.op, objL.dense, g2, objR, tol)
            return st == "fail" and (pl[0], pl[1].type if pl[1] else "", pl[1].frame if pl[1] else "") == sig

        from linear_operator.operators import DenseLinearOperator

        class _D:  # dense stand-in with the same value
            def __init__(self, b):
                self.op, self.dense = DenseLinearOperator(b.dense), b.dense

        lcls, rc = sa["cls"], rcls
        ltags, rtags = common.spec_tags(sa), (common.spec_tags(sb) if sb else set())
        try:
            if same(_D(A), B):
                lcls, ltags = "*", set()
            if B is not None and same(A if lcls != "*" else _D(A), _D(B)):
                rc, rtags = "*", set()
        except Exception:  # noqa: BLE001
            pass
        cls = lcls if sb is None else f"{lcls}|{rc}"
        ctx.fail(op, mode, cls=cls, path=path, exc=ex, err=err, detail=detail, tags=set(ltags) | set(rtags) | set(extra), info=info)
        return
    ctx.ok(op, key, sa["n"] >= 2, sample=dict(op=op, left=zoo.class_path(sa, 3), right=zoo.class_path(sb, 3) if sb else None,
                                                params=case["params"], result_type=type(obj).__name__, err=payload))
    ctx.stat("result_type:" + op + ":" + type(obj).__name__)
    # follow-up steps on the library's own result (shadow continues on the dense value)
    for i, f in enumerate(case.get("followups", [])):
        if torch.is_tensor(obj) or dense.dim() < 2:
            break
        shape = list(dense.shape)
        nb = len(shape) - 2
        params = {}
        if f == "sum":
            params["dim"] = -3 if nb else -1
        if f in ("squeeze", "unsqueeze"):
            params["dim"] = 0
        if f == "repeat":
            # one batch dimension MORE than the result has (repeat of a repeat / of an expanded result pads the earlier counts)
            params["sizes"] = [3] + [1 + (j % 2) for j in range(nb)] + [1, 1]
        if f == "add_jitter" and shape[-1] != shape[-2]:
            continue
        if f == "squeeze" and (nb == 0 or shape[0] != 1):
            continue
        ctx.stat("steps")
        tname = type(obj).__name__.replace("LinearOperator", "")
        status, payload, obj2, dense2, extra = _run_step(f, params, obj, dense, g, None, tol * 10)
        if status == "fail":
            mode, ex, err, detail = payload
            ctx.fail(f, mode, cls="result:" + tname, path=f"{op}({path}) -> {f}", exc=ex, err=err, detail=detail,
                     tags=set(tags) | set(extra) | {"followup"}, info=info)
            break
        if status != "ok":
            break
        ctx.ok(f, f"{f}|result:{tname}|step{i + 2}", True)
        obj, dense = obj2, dense2
