"""C08 - conjugate gradients converges to the solution and returns true Lanczos matrices (hook-trace invariants)."""
import math
import random
import sys
import warnings

import torch

from .. import compare, zoo
from ..monitors.hooks import Recorder, StepBoundExceeded

BUDGET = {"quick": dict(seconds=35, cases=10**9), "thorough": dict(seconds=540, cases=10**9)}
RULE = ("cases: linear_cg called directly on SPD matrices with prescribed spectra (uniform / clustered / geometric, kappa up to 1e6 in f64 and 1e3 "
        "in f32), n 1..24 quick / ..64 thorough, batch shapes, 1-6 columns incl. zero / 1e-12 / 1e+12-norm columns, initial guesses, "
        "preconditioners {none, Jacobi, exact inverse, low-rank + diag, identity returning its argument}, tolerances, max_iter, max_tridiag_iter, "
        "n_tridiag, terminate_cg_by_size, both dtypes. oracle over the cg.begin / cg.iter / cg.end hook trace, in the solver's normalised "
        "variables: A-norm error e_k <= e_{k-1} + phi and e_k <= 2((sqrt(k)-1)/(sqrt(k)+1))^k e_0 + phi with phi = (1e-5 + 10 kappa eps) e_0 "
        "(kappa of the preconditioned operator); finished without NumericalWarning => mean relative true residual < tolerance (+ floor); zero "
        "columns give exactly zero; columns whose convergence mask is set stop changing; x(c b) = c x(b); preconditioned limit = unpreconditioned "
        "limit; tridiagonals symmetric tridiagonal with Ritz values inside the spectrum and e1^T f(T) e1 = z^T f(A) z (f = log, 1/x) at full "
        "dimension; NaN closures and max_tridiag_iter > max_iter raise; iteration events beyond the documented bound abort. distinct key = "
        "(clause, spectrum family, kappa decade, preconditioner, dtype, batch rank) [added: matrices at scale 1e12 (float64), judged on the tridiagonal clauses only - the solver's absolute eps safeguards make the convergence clauses undecidable there; accuracy floor relative to max(e_0, ||x*||_A)] [round 4: column_scaling_linearity - one column alone rescaled (per batch member) to norm 3e-9 (above the 1e-10 zero threshold) or 1e6 scales its answer and leaves the other columns untouched] [round 5: tridiag_recorded_while_a_probe_is_alive - T shorter than min(max_tridiag_iter, iterations run - 1) only if every tracked unmasked probe's Krylov space (float64 Arnoldi) is exhausted] [round 6: no_warning_implies_tolerance is judged also when the solver did not iterate at all; the alive test of the recording clause treats a probe whose normalised residual is below 1e-4 as converged]")
ASSUMPTIONS = ["float64 dense solve / eigendecomposition is the reference", "cg.* hook events expose the normalised iterate and residual per iteration",
               "phi calibrated on the unchanged tree (DESIGN 5, C08)"]
REQUIRED_STATS = ("runs", "cg_iter_events")


def _lcg():
    import linear_operator.utils.linear_cg  # noqa: F401

    return sys.modules["linear_operator.utils.linear_cg"].linear_cg


def gen_cases(ctx):
    rng = ctx.rng
    sizes = [1, 2, 3, 5, 8, 12, 16, 24] if ctx.tier == "quick" else [1, 2, 3, 5, 8, 16, 32, 48, 64]
    while True:
        dtype = rng.choice(["f64", "f64", "f32"])
        kappa = rng.choice([1.0, 10.0, 1e2, 1e3] + ([1e4, 1e6] if dtype == "f64" else []))
        n = rng.choice(sizes)
        yield dict(n=n, batch=rng.choice([[], [], [2], [2, 2]]), dtype=dtype, kappa=kappa, family=rng.choice(["uniform", "clustered", "geometric"]),
                   cols=rng.choice([1, 2, 3, 6]), special=rng.choice([None, None, "zero", "tiny", "huge"]),
                   precond=rng.choice([None, None, "jacobi", "exact", "lowrank", "identity_alias"]), guess=rng.random() < 0.2,
                   tol=rng.choice([1.0, 1e-2, 1e-4, 1e-8]), max_iter=rng.choice(["n", "2n", "half", 1000]), n_tridiag=rng.choice([0, 0, 1, 2]),
                   tridiag_iter=rng.choice(["n", "n+2", "small"]), by_size=rng.random() < 0.3, seed=rng.randrange(1 << 30),
                   clause=rng.choice(["trace", "trace", "trace", "scaling", "precond_limit", "raises"]),
                   matscale=rng.choice([1.0, 1.0, 1.0, 1e12]) if dtype == "f64" else 1.0)


def _setup(case):
    dt = zoo.DT[case["dtype"]]
    g = torch.Generator().manual_seed(case["seed"])
    n, batch = case["n"], case["batch"]
    # matscale: the same spectrum at a very large scale (an operator with a large output scale): every clause is scale-invariant, the
    # solver's absolute safeguards (eps = 1e-10) are not necessarily
    A64 = zoo.pd_matrix(g, n, batch, kappa=case["kappa"], family=case["family"]) * case.get("matscale", 1.0)
    A = A64.to(dt)
    A64 = A.to(torch.float64)
    A64 = (A64 + A64.mT) / 2
    cols = case["cols"]
    B = torch.randn(*batch, n, cols, generator=g, dtype=torch.float64)
    sp = case["special"]
    if sp == "zero":
        B[..., 0] = 0
    elif sp == "tiny":
        B[..., 0] *= 1e-12
    elif sp == "huge":
        B[..., -1] *= 1e12
    B = B.to(dt)
    pre, P64 = None, None
    pk = case["precond"]
    if pk == "jacobi":
        d = A.diagonal(dim1=-2, dim2=-1).unsqueeze(-1)
        pre = lambda r: r / d  # noqa: E731
        P64 = torch.diag_embed(A64.diagonal(dim1=-2, dim2=-1))
    elif pk == "exact":
        Ainv = torch.linalg.inv(A64).to(dt)
        pre = lambda r: Ainv @ r  # noqa: E731
        P64 = A64.clone()
    elif pk == "lowrank":
        k = max(1, n // 3)
        ev, V = torch.linalg.eigh(A64)
        Vk, evk = V[..., -k:], ev[..., -k:]
        sig = ev[..., : n - k].mean(-1, keepdim=True) if n - k > 0 else ev.mean(-1, keepdim=True)
        P64 = (Vk * (evk - sig).clamp_min(0).unsqueeze(-2)) @ Vk.mT + sig.unsqueeze(-1) * torch.eye(n, dtype=torch.float64)
        Pinv = torch.linalg.inv(P64).to(dt)
        pre = lambda r: Pinv @ r  # noqa: E731
    elif pk == "identity_alias":
        pre = lambda r: r  # noqa: E731  (returns its argument: legal SPD preconditioner)
        P64 = torch.eye(n, dtype=torch.float64).expand(*batch, n, n)
    x0 = None
    if case["guess"]:
        x0 = (torch.randn(*batch, n, cols, generator=g, dtype=torch.float64) * 0.1).to(dt)
    n_ = n
    mi = {"n": n_, "2n": 2 * n_, "half": max(1, n_ // 2), 1000: 1000}[case["max_iter"]]
    ti = {"n": n_, "n+2": n_ + 2, "small": max(1, n_ // 2)}[case["tridiag_iter"]]
    ti = min(ti, mi)
    return dt, A, A64, B, pre, P64, x0, mi, ti


def _anorm(E, A64):
    return ((E * (A64 @ E)).sum(-2).clamp_min(0)).sqrt()


def run_case(case, ctx):
    from linear_operator import settings
    from linear_operator.utils.warnings import NumericalWarning

    lcg = _lcg()
    dt, A, A64, B, pre, P64, x0, mi, ti = _setup(case)
    n, batch = case["n"], case["batch"]
    eps = torch.finfo(dt).eps
    fam = case["family"]
    kdec = int(round(math.log10(case["kappa"])))
    pk = case["precond"] or "none"
    kb = f"{fam}|k1e{kdec}|{pk}|{case['dtype']}|b{len(batch)}"
    tags = {"precond:" + pk}
    info = {case["dtype"], fam, f"kappa1e{kdec}", f"n{n}"} | ({"batched"} if batch else set()) | ({"special:" + case["special"]} if case["special"] else set())
    kw = dict(cls="linear_cg", path=pk, tags=tags, info=info)
    ntri = min(case["n_tridiag"], case["cols"])
    ctx.stat("runs")

    def run(rhs, precond=pre, max_iter=mi, tridiag=ntri, tol=case["tol"], guess=x0, max_tridiag_iter=ti):
        with settings.terminate_cg_by_size(case["by_size"]), warnings.catch_warnings(record=True) as wl:
            warnings.simplefilter("always")
            with Recorder(keep=("cg",), clone=True) as rec:
                out = lcg(A.matmul, rhs, n_tridiag=tridiag, tolerance=tol, max_iter=max_iter, max_tridiag_iter=max_tridiag_iter,
                          initial_guess=guess, preconditioner=precond)
        warned = any(issubclass(w.category, NumericalWarning) for w in wl)
        return out, rec, warned

    clause = case["clause"]
    if clause == "raises":
        def nan_closure(v):
            r = A @ v
            r[..., 0, :] = float("nan")
            return r

        _, ex = compare.attempt(lambda: lcg(nan_closure, B, max_iter=mi, max_tridiag_iter=ti, tolerance=case["tol"]))
        if ex is None:
            ctx.fail("nan_closure_raises", "no-raise", detail="NaN matrix-vector products were accepted", **kw)
        else:
            ctx.ok("nan_closure_raises", kb)
        _, ex = compare.attempt(lambda: lcg(A.matmul, B, n_tridiag=1, max_iter=max(1, mi // 2), max_tridiag_iter=mi + 3, tolerance=case["tol"]))
        if ex is None:
            ctx.fail("inconsistent_limits_raise", "no-raise", detail="max_tridiag_iter > max_iter accepted", **kw)
        else:
            ctx.ok("inconsistent_limits_raise", kb)
        return
    if pk == "identity_alias":
        tags.add("precond_returns_argument")
    res, ex = compare.attempt(run, B)
    if ex is not None:
        if ex.type == "StepBoundExceeded":
            ctx.fail("step_bound", "value", detail=ex.msg, **kw)
        else:
            ctx.fail("linear_cg", "exception", exc=ex, **kw)
        return
    out, rec, warned = res
    X, T = (out if ntri else (out, None))
    if not torch.isfinite(X).all():
        ctx.fail("finite_result", "value", detail="non-finite solution", **kw)
        return
    iters = rec.of("cg.iter")
    ctx.stat("cg_iter_events", len(iters))
    beg = rec.of("cg.begin")[0]
    rhsn = beg["rhs"].to(torch.float64)  # normalised right-hand sides
    zero = beg["rhs_is_zero"].squeeze(-2)
    Xs = torch.linalg.solve(A64, rhsn)
    # kappa of the (preconditioned) operator
    if P64 is not None:
        ev, V = torch.linalg.eigh(P64)
        Pih = (V * ev.rsqrt().unsqueeze(-2)) @ V.mT
        M = Pih @ A64 @ Pih
    else:
        M = A64
    evM = torch.linalg.eigvalsh((M + M.mT) / 2)
    kap = float((evM[..., -1] / evM[..., 0]).max())
    kA = float(torch.linalg.cond(A64).max())
    # accuracy floor in A-norm error relative to e_0: the solver's residual floor (safe divisions / freeze threshold,
    # ~sqrt(eps) = 1e-5 relative residual) costs sqrt(kappa_A) in the A-norm, plus the attainable accuracy of the dtype
    floor_rel = 5e-5 * math.sqrt(kA) + 20 * kA * eps
    rate = (math.sqrt(kap) - 1) / (math.sqrt(kap) + 1)
    # ---------------- per-iteration clauses (judged where the floor leaves room: f32 only for kappa <= 1e3)
    # at a very large scale the solver's ABSOLUTE safeguards (eps = 1e-10 on r^T z, p^T A p) fire legitimately (that is the "floor implied
    # by its own safe-division thresholds"): only the tridiagonal clauses, which concern the recorded Lanczos coefficients, are judged there
    scaled = case.get("matscale", 1.0) != 1.0
    judge_trace = floor_rel < 0.1 and case["special"] != "huge" and case["special"] != "tiny" and not scaled
    x_prev = beg["result"].to(torch.float64)
    e0 = _anorm(x_prev - Xs, A64)
    # the floor is a property of the solve, not of the start: with an initial guess close to the solution e_0 is small while the
    # attainable accuracy stays relative to the solution itself
    phi = floor_rel * torch.maximum(e0, _anorm(Xs, A64)) + 1e-300
    e_prev = e0
    conv_prev = None
    ok_trace = True
    for it in iters:
        k = it["k"]
        xk = it["result"].to(torch.float64)
        ek = _anorm(xk - Xs, A64)
        if judge_trace and ok_trace:
            mono = (ek <= e_prev + phi) | zero
            if not bool(mono.all()):
                ctx.fail("anorm_error_monotone", "value", err=float(((ek - e_prev) / (e0 + 1e-300)).max()),
                         detail=f"iteration {k}: A-norm error increased by {float(((ek - e_prev) / (e0 + 1e-300)).max()):.2e} e0 (floor {floor_rel:.1e})", **kw)
                ok_trace = False
            bound = 2 * rate ** (k + 1) * e0 + phi
            # in exact arithmetic CG has converged after n steps; later iterations only show the finite-precision delay
            if ok_trace and k < n and kap <= 1e4 and not bool(((ek <= bound) | zero).all()):
                ctx.fail("classical_bound", "value", err=float((ek / (e0 + 1e-300)).max()),
                         detail=f"iteration {k}: e_k/e_0 = {float((ek / (e0 + 1e-300)).max()):.2e} > 2 rho^k + floor = {2 * rate ** (k + 1) + floor_rel:.2e} (kappa {kap:.1e})", **kw)
                ok_trace = False
        if conv_prev is not None and ok_trace:
            frozen = conv_prev.squeeze(-2)
            moved = ((xk - x_prev).abs().amax(-2) > 0) & frozen
            if bool(moved.any()):
                ctx.fail("converged_columns_frozen", "value", detail=f"iteration {k}: a column whose convergence mask was set changed", **kw)
                ok_trace = False
        conv_prev = it["has_converged"]
        e_prev, x_prev = ek, xk
    if iters and ok_trace:
        if judge_trace:
            ctx.ok("anorm_error_monotone", kb, n >= 2, sample=dict(n=n, batch=batch, kappa=kap, family=fam, precond=pk, iterations=len(iters), final_rel_error=float((e_prev / (e0 + 1e-300)).max())))
            ctx.ok("classical_bound", kb, n >= 2)
        ctx.ok("converged_columns_frozen", kb, n >= 2)
    # ---------------- final clauses
    X64 = X.to(torch.float64)
    B64 = B.to(torch.float64)
    bn = B64.norm(dim=-2)
    if case["special"] == "zero" and x0 is None:
        if float(X64[..., 0].abs().max()) != 0.0:
            ctx.fail("zero_rhs_gives_zero", "value", err=float(X64[..., 0].abs().max()), **kw)
        else:
            ctx.ok("zero_rhs_gives_zero", kb)
    # (also when the solver did not iterate at all: "already solved" must be true of EVERY column then)
    if not warned and not scaled:
        R = A64 @ X64 - B64
        rel = R.norm(dim=-2) / bn.clamp_min(1e-300)
        rel = torch.where(bn < 1e-10, torch.zeros_like(rel), rel)
        meanrel = float(rel.mean())
        floor = 5e-5 + 10 * kA * eps
        if not meanrel <= case["tol"] + floor + 1e-12:
            ctx.fail("no_warning_implies_tolerance", "value", err=meanrel, detail=f"no NumericalWarning but mean relative residual {meanrel:.2e} > tolerance {case['tol']:.0e} + floor {floor:.1e}", **kw)
        else:
            ctx.ok("no_warning_implies_tolerance", kb + f"|tol{case['tol']:.0e}", n >= 2)
    # ---------------- tridiagonal matrices
    if ntri and T is not None and T.numel() and not (len(iters) <= 1 and float(T.abs().max()) == 0.0):
        T64 = T.to(torch.float64)
        kfull = T64.shape[-1]
        scale = float(evM[..., -1].max())
        tr = torch.triu(T64, 2).abs().max() if kfull > 2 else torch.tensor(0.0)
        sym = (T64 - T64.mT).abs().max()
        if float(tr) > 0 or float(sym) > 1e-12 * scale or not torch.isfinite(T64).all():
            ctx.fail("tridiag_structure", "value", err=float(max(tr, sym)), detail="not a finite symmetric tridiagonal matrix", **kw)
        else:
            ctx.ok("tridiag_structure", kb, n >= 2)
            Tf = T64.reshape(ntri, -1, kfull, kfull)  # (probe, flattened batch, k, k)
            evf = evM.reshape(-1, n)
            Mf = M.reshape(-1, n, n)
            zf = rhsn[..., :ntri].reshape(-1, n, ntri)
            zerof = zero[..., :ntri].reshape(-1, ntri)
            Pihf = Pih.reshape(-1, n, n) if P64 is not None else None
            pk_ok = P64 is None or float(torch.linalg.cond(P64).max()) <= 1e3
            ritz_judged = dt == torch.float64 or kap <= 10
            quad_judged = n >= 2 and dt == torch.float64 and kap <= 1e2 and kA <= 1e3 and pk_ok and x0 is None
            bad_ritz = bad_quad = None
            n_quad = 0
            for p_ in range(ntri):
                for b_ in range(Tf.shape[1]):
                    if bool(zerof[b_, p_]):
                        continue  # a zero right-hand side carries no Krylov space
                    Tm = Tf[p_, b_]
                    # once a Krylov space is exhausted the solver pads T with decoupled unit entries (its own threshold on the
                    # off-diagonal is 1e-6): keep the block connected to e_1
                    kd = kfull
                    for j in range(kfull - 1):
                        if abs(float(Tm[j, j + 1])) < 2e-6:
                            kd = j + 1
                            break
                    # a column whose convergence mask is set gets alpha = 0 from then on: the rows of T written afterwards
                    # (reciprocal of the masked alpha) are padding, not Lanczos coefficients
                    for it in iters:
                        hc = it["has_converged"].reshape(-1, it["has_converged"].shape[-1])
                        al = it["alpha"].reshape(-1, it["alpha"].shape[-1])
                        if float(al[b_, p_]) == 0.0:  # safe division fired (denominator below eps): this row of T is filler
                            kd = min(kd, it["k"])
                            break
                        if bool(hc[b_, p_]):
                            kd = min(kd, it["k"] + 1)
                            break
                    if kd < 1:
                        continue
                    Tb = Tm[:kd, :kd]
                    evt, Vt = torch.linalg.eigh(Tb)
                    lo, hi = float(evf[b_, 0]), float(evf[b_, -1])
                    slack = (1e-5 if dt == torch.float64 else 1e-2) * hi
                    # below the solver's accuracy floor (safe divisions at eps = 1e-10, i.e. relative residual 1e-5) T is continued with
                    # weakly coupled filler entries; such Ritz pairs carry a quadrature weight (first eigenvector component squared)
                    # below 1e-7 and are not Ritz values of the Krylov space that was actually built
                    wgt = Vt[0, :] ** 2
                    live = evt[wgt > 1e-7]
                    if ritz_judged and live.numel() and (float(live[0]) < lo - slack or float(live[-1]) > hi + slack):
                        bad_ritz = f"Ritz values [{float(evt[0]):.6g}, {float(evt[-1]):.6g}] outside spectrum [{lo:.6g}, {hi:.6g}] (Krylov dim {kd})"
                    if quad_judged and kd >= n:
                        z = zf[b_, :, p_]
                        if Pihf is not None:
                            z = Pihf[b_] @ z
                            z = z / z.norm()
                        evm, Vm = torch.linalg.eigh((Mf[b_] + Mf[b_].mT) / 2)
                        w = (Vm.mT @ z) ** 2
                        for fname, f in (("log", torch.log), ("inv", torch.reciprocal)):
                            refq = float((w * f(evm)).sum())
                            gotq = float(((Vt[0, :] ** 2) * f(evt)).sum())
                            err = abs(gotq - refq) / (float(f(evm).abs().max()) + 1e-300)
                            if not err <= 1e-6 * max(kap, 1.0):
                                bad_quad = (err, f"e1^T {fname}(T) e1 = {gotq:.8g} != z^T {fname}(A) z = {refq:.8g}")
                        n_quad += 1
            # recording may stop before the budget only when EVERY tracked column has broken down (off-diagonal below the solver's 1e-6
            # threshold): a probe whose Krylov space is far from exhausted at that point must still be recorded
            # (the iteration that meets the stopping rule leaves the loop before its coefficients are recorded: one step of slack)
            budget_rec = min(ti, len(iters) - 1)
            if kfull < budget_rec and dt == torch.float64 and kap <= 1e4 and pk_ok and x0 is None and not scaled:
                from .c09 import krylov_dim

                alive = None
                for p_ in range(ntri):
                    for b_ in range(Tf.shape[1]):
                        if bool(zerof[b_, p_]):
                            continue
                        masked = False
                        for it in iters:
                            if it["k"] > kfull:
                                break
                            hc = it["has_converged"].reshape(-1, it["has_converged"].shape[-1])
                            al = it["alpha"].reshape(-1, it["alpha"].shape[-1])
                            if float(al[b_, p_]) == 0.0 or bool(hc[b_, p_]):
                                masked = True
                                break
                            # a probe whose (normalised) residual has reached the solver's accuracy floor has effectively converged:
                            # its later coefficients are formed from rounding-level residuals (off-diagonals below the 1e-6 threshold)
                            rn = it.get("residual_norm")
                            if rn is not None and float(rn.reshape(-1, rn.shape[-1])[b_, p_]) < 1e-4:
                                masked = True
                                break
                        if masked:
                            continue
                        z = zf[b_, :, p_]
                        if Pihf is not None:
                            z = Pihf[b_] @ z
                        kdt = int(krylov_dim(Mf[b_], z.unsqueeze(-1), tol=1e-3))
                        if kdt > kfull + 1:
                            alive = (p_, b_, kdt)
                ctx.stat("tridiag_truncated_before_budget")
                if alive is not None:
                    ctx.fail("tridiag_recorded_while_a_probe_is_alive", "value", detail=f"T has {kfull} steps although {budget_rec} were run within the budget and probe {alive[0]} of member "
                             f"{alive[1]} has a Krylov space of dimension {alive[2]} (not converged, not masked)", **kw)
                else:
                    ctx.ok("tridiag_recorded_while_a_probe_is_alive", kb, n >= 2)
            if bad_ritz:
                ctx.fail("ritz_values_in_spectrum", "value", detail=bad_ritz, **kw)
            elif ritz_judged:
                ctx.ok("ritz_values_in_spectrum", kb, n >= 2)
            if bad_quad:
                ctx.fail("tridiag_quadrature_identity", "value", err=bad_quad[0], detail=bad_quad[1], **kw)
            elif n_quad:
                ctx.ok("tridiag_quadrature_identity", kb, n >= 2, sample=dict(n=n, kappa=kap, precond=pk, n_tridiag=ntri, checked=n_quad))
    # ---------------- metamorphic pairs
    if scaled:
        return
    if clause == "scaling" and case["special"] is None and 4 * math.sqrt(kA) * floor_rel < 0.05:
        c = 3.7
        res2, ex = compare.attempt(run, B * c, pre, max(mi, 2 * n), 0, 1e-10, None if x0 is None else x0 * c, min(ti, max(mi, 2 * n)))
        res1, ex1 = compare.attempt(run, B, pre, max(mi, 2 * n), 0, 1e-10, x0, min(ti, max(mi, 2 * n)))
        if ex is None and ex1 is None and torch.isfinite(res1[0]).all():
            e = compare.relerr(res2[0], res1[0] * c, scale=1e-300)
            # float32: the two runs freeze their columns at slightly different iterations (the freeze threshold is absolute)
            if not e <= (4 if dt == torch.float64 else 40) * math.sqrt(kA) * floor_rel + 1e-6:
                ctx.fail("scaling_linearity", "value", err=e, **kw)
            else:
                ctx.ok("scaling_linearity", kb, n >= 2)
            # one column alone scaled to a tiny (but non-zero: norm 3e-9 > the 1e-10 zero threshold) or a large norm: right-hand sides
            # are normalised column by column, so that column's answer scales with it and the others do not move
            for cs_name, target in (("tiny", 3e-9), ("large", 1e6)):
                # (per batch member, so that every member's column lands at the target norm)
                f = (target / B.to(torch.float64)[..., 0].norm(dim=-1, keepdim=True).clamp_min(1e-300)).to(dt)
                B3 = B.clone()
                B3[..., 0] = B3[..., 0] * f
                x3 = None
                if x0 is not None:
                    x3 = x0.clone()
                    x3[..., 0] = x3[..., 0] * f
                res3, ex3 = compare.attempt(run, B3, pre, max(mi, 2 * n), 0, 1e-10, x3, min(ti, max(mi, 2 * n)))
                if ex3 is not None or not torch.isfinite(res3[0]).all():
                    continue
                want = res1[0].to(torch.float64).clone()
                want[..., 0] = want[..., 0] * f.to(torch.float64)
                got = res3[0].to(torch.float64)
                # column-wise relative error (the scaled column must not hide behind the others)
                num = (got - want).norm(dim=-2)
                den = want.norm(dim=-2).clamp_min(1e-300)
                e3 = float((num / den).max())
                if not e3 <= (4 if dt == torch.float64 else 40) * math.sqrt(kA) * floor_rel + 1e-6:
                    ctx.fail("column_scaling_linearity", "value", err=e3, detail=f"column 0 scaled to norm {target:.0e}: column-wise relative deviation {e3:.2e}",
                             **dict(kw, info=kw["info"] | {"column:" + cs_name}))
                else:
                    ctx.ok("column_scaling_linearity", kb + "|" + cs_name, n >= 2)
    if clause == "precond_limit" and pre is not None and pk != "identity_alias" and case["special"] is None and 2 * math.sqrt(kA) * floor_rel < 1e-2:
        big = 4 * n + 20
        r1, ex1 = compare.attempt(run, B, pre, big, 0, 1e-12, None, min(ti, big))
        r2, ex2 = compare.attempt(run, B, None, big, 0, 1e-12, None, min(ti, big))
        if ex1 is None and ex2 is None:
            e = compare.relerr(r1[0], r2[0], scale=1e-300)
            if not e <= 4 * math.sqrt(kA) * floor_rel + 1e-6:
                ctx.fail("preconditioner_changes_only_speed", "value", err=e, **kw)
            else:
                ctx.ok("preconditioner_changes_only_speed", kb, n >= 2)


def finish(ctx):
    # thorough tier, shard 0: the repository's own test-suite as a second workload under this property's monitor
    from .. import suite

    suite.ingest(ctx, "steps", "suite.step_bound")
