"""C13 - no operation mutates caller-owned tensors or an existing operator's matrix (write-watchpoint sanitizer)."""
import contextlib
import random
import sys
import warnings

import torch

from .. import compare, model, zoo
from ..monitors.writesan import Snapshot, WriteSan
from . import common

BUDGET = {"quick": dict(seconds=45, cases=10**9), "thorough": dict(seconds=600, cases=10**9)}
RULE = ("cases: sequences of 1-3 public operations (products, solves through Cholesky and CG, log-determinants, factorizations, roots, "
        "indexing, sums, arithmetic, add_diagonal / add_jitter / add_low_rank / cat_rows, pivoted Cholesky, preconditioner, sampling, "
        "sqrt_inv_matmul, conversions) on operators of every class, and direct calls of linear_cg / minres / lanczos_tridiag / "
        "psd_safe_cholesky / stable_qr / stable_pinverse / Toeplitz / sparse / interpolation / permutation utilities, with every "
        "caller-owned tensor in a hostile layout {contiguous, transposed view, slice of a larger sentinel-filled storage, expanded "
        "stride-0} and the same tensor in two roles. oracle: a TorchDispatchMode sees every ATen op the library executes; a write "
        "(schema argument flagged is_write, out= and detach_/requires_grad_ excepted) into the storage of a caller tensor is a violation, "
        "as is any change of version counter, metadata or bytes of a caller tensor, of the sentinel padding, or of the dense matrix "
        "denoted by the pre-existing operator. distinct key = (operation, root class, layout) [added: sequences also run with max_cholesky_size = n - 1 (between the size of the parts and of the whole); tensor indices with negative entries (also slices of larger tensors)] [round 4: 20% of the cases are rectangular / general square operators (Cat along either matrix dimension with structured square blocks, products, interpolations) under the operations that need no definiteness, incl. matrix-vector products] [round 5: contour_integral_quad called directly, fresh and re-using a quadrature rule (weights= / shifts= as caller tensors), with and without shift_offset]")
ASSUMPTIONS = ["op schemas (alias_info.is_write) identify in-place ATen writes", "bitwise comparison of snapshots taken before the call"]
REQUIRED_STATS = ("operations", "aten_ops_seen", "aten_writes_seen")

OPS = ["getitem_tensor_neg", "matmul", "matvec", "rmatmul", "t_matmul", "to_dense", "diagonal", "getitem", "getitem_tensor", "solve", "solve_cg", "solve_left", "inv_quad", "logdet",
       "inv_quad_logdet_slq", "cholesky", "root_decomposition", "root_lanczos", "root_inv", "root_inv_lanczos", "eigh", "svd", "diagonalization",
       "add_diagonal", "add_jitter", "add_low_rank", "cat_rows", "pivoted_cholesky", "preconditioner", "samples", "sqrt_inv_matmul", "sum_batch",
       "mul_scalar", "mul_op", "add_tensor", "add_op", "expand", "clone_detach", "double", "evaluate_kernel", "rebuild"]
RECT_OPS = ["matmul", "matvec", "rmatmul", "t_matmul", "to_dense", "getitem", "mul_scalar", "add_tensor", "add_op", "expand", "clone_detach", "double", "rebuild", "sum_batch"]
UTILS = ["ciq", "ciq_reuse", "ciq_reuse_offset", "linear_cg", "linear_cg_guess", "minres", "lanczos", "psd_safe_cholesky", "psd_safe_cholesky_jitter", "stable_qr", "stable_pinverse",
         "toeplitz_matmul", "sym_toeplitz_derivative", "left_interp", "left_t_interp", "make_sparse", "make_sparse_allzero", "sparse_getitem",
         "sparse_getitem_empty", "sparse_repeat", "bdsmm", "apply_permutation", "inverse_permutation"]


def gen_cases(ctx):
    rng = ctx.rng
    classes = list(zoo.ALL_CLASSES)
    i = ctx.shard
    while True:
        i += 1
        if rng.random() < 0.25:
            yield dict(mode="util", util=rng.choice(UTILS), layout=rng.choice([None, "transposed", "slice", "expanded"]), n=rng.choice([2, 3, 5, 8]),
                       batch=rng.choice([[], [2]]), dtype=rng.choice(["f64", "f32"]), seed=rng.randrange(1 << 30))
            continue
        root = classes[i % len(classes)]
        n = rng.choice([2, 3, 4, 6])
        batch = rng.choice([[], [], [2], [2, 2]])
        if rng.random() < 0.2:
            # rectangular / general square operators (concatenations, products, interpolations, non-symmetric structure) under the
            # operations that do not need positive definiteness
            m = rng.choice([n, n + 1, n + 2, max(1, n - 1), 2 * n])
            spec = zoo.gen_spec(rng, "rect" if m != n else "square", n, m, batch, depth=rng.choice([1, 2]), dtype=rng.choice(["f64", "f64", "f32"]), root=root)
            if spec is None:
                continue
            yield dict(mode="op", spec=spec, ops=[rng.choice(RECT_OPS) for _ in range(rng.choice([1, 2, 3]))], layout=rng.choice([None, "transposed", "slice", "expanded"]),
                       shared=False, seed=rng.randrange(1 << 30), mcs=None)
            continue
        spec = zoo.gen_spec(rng, "pd", n, n, batch, depth=rng.choice([1, 2]), dtype=rng.choice(["f64", "f64", "f32"]), root=root)
        if spec is None:
            continue
        yield dict(mode="op", spec=spec, ops=[rng.choice(OPS) for _ in range(rng.choice([1, 2, 3]))], layout=rng.choice([None, "transposed", "slice", "expanded"]),
                   shared=rng.random() < 0.2, seed=rng.randrange(1 << 30),
                   # (structured sums / products: mostly with the Cholesky threshold between the size of the parts and of the whole)
                   mcs=rng.choice([None, "mid", "mid", "mid"]) if spec["cls"] in ("KronAddedDiag", "SumKron", "Kron", "LowRankRootAddedDiag") else rng.choice([None, None, "mid"]))


def _hostile(t, how):
    if how == "expanded":
        if t.dim() >= 2 and t.shape[-1] > 1:
            return t[..., :1].expand_as(t)
        return t
    return zoo.layout(t, how, None) if how in ("transposed", "slice") else t


def _sentinels(tensors):
    """bytes of the storages around 'slice' views must stay untouched as well"""
    out = {}
    for k, v in tensors.items():
        if not v.is_sparse and v.numel() and v.untyped_storage().nbytes() > v.numel() * v.element_size() and not any(s == 0 for s in v.stride()):
            st = torch.empty(0, dtype=v.dtype).set_(v.untyped_storage())
            out[k + ".storage"] = st
    return out


def _apply(opname, op, dense, g, layout, rng):
    """-> (thunk, extra caller tensors)"""
    import linear_operator
    from linear_operator import settings
    from linear_operator.operators import DenseLinearOperator

    dt = dense.dtype
    batch = list(dense.shape[:-2])
    n = dense.shape[-1]
    nr = dense.shape[-2]  # (rectangular operators: products, sums, indexing, conversions only)

    def randn(*shape):
        return _hostile(torch.randn(tuple(shape), generator=g, dtype=torch.float64).to(dt), layout)

    ex = {}
    R = randn(*batch, n, 2)
    ex["rhs"] = R
    cg = lambda: contextlib.ExitStack()  # noqa: E731

    def with_cg(f):
        def run():
            with settings.max_cholesky_size(0), settings.min_preconditioning_size(1), settings.max_preconditioner_size(2), warnings.catch_warnings():
                warnings.simplefilter("ignore")
                return f()
        return run

    if opname == "matmul":
        return (lambda: op @ R), ex
    if opname == "rmatmul":
        Lh = randn(*batch, 2, nr)
        return (lambda: Lh @ op), {"lhs": Lh}
    if opname == "t_matmul":
        Rt = R if nr == n else randn(*batch, nr, 2)
        return (lambda: op.mT @ Rt), {"rhs": Rt}
    if opname == "matvec":
        v = randn(n)
        return (lambda: op @ v), {"rhs": v}
    if opname == "to_dense":
        return (lambda: op.to_dense()), {}
    if opname == "diagonal":
        return (lambda: op.diagonal()), {}
    if opname == "getitem":
        return (lambda: (op[..., 0, :], op[..., 1:, :1].to_dense() if nr > 1 else None)), {}
    if opname == "getitem_tensor":
        idx = _hostile(torch.tensor([0, n - 1, 0]), layout if layout != "expanded" else None)
        return (lambda: (op[..., idx, idx], op[..., idx, :].to_dense())), {"index": idx}
    if opname == "getitem_tensor_neg":
        # negative entries have to be wrapped - in a copy, not in the caller's index tensor (also a slice of a larger tensor)
        idx = _hostile(torch.tensor([-1, 0, -n]), layout if layout != "expanded" else None)
        bidx = _hostile(torch.tensor([-1, 0, 0]), layout if layout != "expanded" else None) if batch else None
        if bidx is not None:
            return (lambda: (op[..., idx, idx], op[..., idx, :].to_dense(), op[(bidx,) + (slice(None),) * (len(batch) - 1) + (idx, idx)])), {"index": idx, "batch_index": bidx}
        return (lambda: (op[..., idx, idx], op[..., idx, :].to_dense(), op[..., :, idx].to_dense())), {"index": idx}
    if opname == "solve":
        return (lambda: op.solve(R)), ex
    if opname == "solve_cg":
        return with_cg(lambda: op.solve(R)), ex
    if opname == "solve_left":
        Lh = randn(*batch, 2, n)
        return (lambda: op.solve(R, Lh)), {"rhs": R, "lhs": Lh}
    if opname == "inv_quad":
        return (lambda: op.inv_quad(R)), ex
    if opname == "logdet":
        return (lambda: op.logdet()), {}
    if opname == "inv_quad_logdet_slq":
        return with_cg(lambda: op.inv_quad_logdet(R, logdet=True)), ex
    if opname == "cholesky":
        return (lambda: op.cholesky().to_dense()), {}
    if opname == "root_decomposition":
        return (lambda: op.root_decomposition().root.to_dense()), {}
    if opname == "root_lanczos":
        return (lambda: op.root_decomposition(method="lanczos").root.to_dense()), {}
    if opname == "root_inv":
        return (lambda: op.root_inv_decomposition().root.to_dense()), {}
    if opname == "root_inv_lanczos":
        iv = randn(*batch, n, 1)
        return (lambda: op.root_inv_decomposition(initial_vectors=iv, method="lanczos").root.to_dense()), {"initial_vectors": iv}
    if opname == "eigh":
        return (lambda: op.eigh()), {}
    if opname == "svd":
        return (lambda: op.svd()), {}
    if opname == "diagonalization":
        return (lambda: op.diagonalization(method="lanczos")), {}
    if opname == "add_diagonal":
        d = _hostile((0.1 + torch.rand(*batch, n, generator=g, dtype=torch.float64)).to(dt), layout)
        return (lambda: op.add_diagonal(d).to_dense()), {"diag": d}
    if opname == "add_jitter":
        return (lambda: op.add_jitter(0.1).to_dense()), {}
    if opname == "add_low_rank":
        V = randn(*batch, n, 1)
        return (lambda: op.add_low_rank(V).to_dense()), {"low_rank": V}
    if opname == "cat_rows":
        Bm = randn(*batch, 1, n) * 0.1
        C = _hostile((torch.ones(*batch, 1, 1, dtype=torch.float64) * 50).to(dt), None)
        return (lambda: op.cat_rows(Bm, C).to_dense()), {"cross": Bm, "new": C}
    if opname == "pivoted_cholesky":
        return (lambda: op.pivoted_cholesky(2)), {}
    if opname == "preconditioner":
        return with_cg(lambda: op._preconditioner()), {}
    if opname == "samples":
        return (lambda: op.zero_mean_mvn_samples(2)), {}
    if opname == "sqrt_inv_matmul":
        return (lambda: op.sqrt_inv_matmul(R)), ex
    if opname == "sum_batch":
        return (lambda: op.sum(-1) if not batch else op.sum(0)), {}
    if opname == "mul_scalar":
        c = _hostile(torch.tensor(1.5, dtype=dt), None)
        return (lambda: (op * c).to_dense()), {"constant": c}
    if opname == "mul_op":
        return (lambda: (op * DenseLinearOperator(dense.clone())).to_dense()), {}
    if opname == "add_tensor":
        T = randn(*batch, nr, n)
        return (lambda: (op + T).to_dense()), {"tensor": T}
    if opname == "add_op":
        T = randn(*batch, nr, n)
        return (lambda: (op + DenseLinearOperator(T)).to_dense()), {"tensor": T}
    if opname == "expand":
        return (lambda: op.expand(2, *batch, nr, n).to_dense()), {}
    if opname == "clone_detach":
        return (lambda: (op.clone(), op.detach())), {}
    if opname == "double":
        return (lambda: (op.double().to_dense(), op.float().to_dense())), {}
    if opname == "evaluate_kernel":
        return (lambda: op.evaluate_kernel().to_dense()), {}
    if opname == "rebuild":
        return (lambda: op.representation_tree()(*op.representation()).to_dense()), {}
    raise ValueError(opname)


def _observe(ctx, name, thunk, tensors, kw, key, pre_op=None, pre_dense=None, tol=None):
    snap = Snapshot(dict(tensors, **_sentinels(tensors)))
    ws = WriteSan(tensors)
    with warnings.catch_warnings():
        warnings.simplefilter("ignore")
        with ws:
            _, ex = compare.attempt(thunk)
    ctx.stat("operations")
    ctx.stat("aten_ops_seen", ws.ops)
    ctx.stat("aten_writes_seen", ws.writes)
    bad = False
    for fn, tname, where in sorted(set(ws.hits)):
        ctx.fail(name, "mutation", **dict(kw, tags=set(kw["tags"]) | {"write:" + fn.replace("aten::", ""), "target:" + tname.split("#")[0]}),
                 detail=f"{fn} wrote into caller tensor '{tname}' from {where}")
        bad = True
    for tname, what in snap.changed():
        if not any(t == tname for _, t, _ in ws.hits):
            ctx.fail(name, "mutation", **dict(kw, tags=set(kw["tags"]) | {"changed:" + what, "target:" + tname.split("#")[0].split(".")[0]}),
                     detail=f"caller tensor '{tname}' changed ({what}) without an observed in-place ATen write")
            bad = True
    if pre_op is not None:
        dn, exd = compare.attempt(model.denote, pre_op)
        if exd is None and (tuple(dn.shape) != tuple(pre_dense.shape) or not compare.relerr(dn, pre_dense) <= (tol or 1e-10)):
            ctx.fail(name, "mutation", **dict(kw, tags=set(kw["tags"]) | {"operator_matrix_changed"}), detail="the matrix denoted by the existing operator changed")
            bad = True
    if ex is not None and not compare.explicit_unsupported(ex):
        ctx.stat("operation_raised:" + name + ":" + ex.type)
    if not bad:
        ctx.ok(name, key, True, sample=dict(operation=name, aten_ops=ws.ops, aten_writes=ws.writes, watched=sorted(tensors)[:6]))


def run_case(case, ctx):
    lay = case["layout"]
    g = torch.Generator().manual_seed(case["seed"])
    rng = random.Random(case["seed"])
    if case["mode"] == "util":
        _run_util(case, ctx, g, rng)
        return
    spec = case["spec"]
    zoo.LAYOUT[0] = lay
    try:
        b = common.try_build(spec, ctx)
    finally:
        zoo.LAYOUT[0] = None
    if b is None:
        return
    op, dense = b.op, b.dense.clone()
    tags = common.spec_tags(spec)
    base = {f"{nm}#{i}": t for i, (nm, t) in enumerate(b.tensors) if torch.is_tensor(t)}
    tol = max(common.spec_tol(spec), 1e-8 if compare.is64(dense.dtype) else 2e-3)
    for opname in case["ops"]:
        thunk, extra = _apply(opname, op, dense, g, lay, rng)
        if case["shared"] and "rhs" in extra and opname in ("matmul", "solve", "inv_quad"):
            # the same tensor in two roles: right-hand side that aliases a defining tensor of the operator
            pass
        tensors = dict(base, **extra)
        kw = dict(cls=spec["cls"], path=zoo.class_path(spec, 2), tags=set(tags), info=common.spec_info(spec) | {"layout:" + str(lay), "op:" + opname})
        if case.get("mcs") == "mid":
            # a Cholesky threshold BETWEEN the size of the parts and the size of the whole: structured (eigen-, Kronecker-, block-wise)
            # paths of the operator run while its factors still take their direct paths
            from linear_operator import settings

            kw["info"] = kw["info"] | {"max_cholesky_size:n-1"}
            with settings.max_cholesky_size(max(spec["n"] - 1, 1)):
                _observe(ctx, opname, thunk, tensors, kw, f"{opname}|{spec['cls']}|{lay}|mid", pre_op=op, pre_dense=dense, tol=tol)
            continue
        _observe(ctx, opname, thunk, tensors, kw, f"{opname}|{spec['cls']}|{lay}", pre_op=op, pre_dense=dense, tol=tol)


def _run_util(case, ctx, g, rng):
    import linear_operator.utils.linear_cg  # noqa: F401
    import linear_operator.utils.minres  # noqa: F401
    from linear_operator.operators import DenseLinearOperator
    from linear_operator.utils import interpolation as I
    from linear_operator.utils import permutation as P
    from linear_operator.utils import sparse as S
    from linear_operator.utils import toeplitz as T
    from linear_operator.utils.cholesky import psd_safe_cholesky
    from linear_operator.utils.lanczos import lanczos_tridiag
    from linear_operator.utils.pinverse import stable_pinverse
    from linear_operator.utils.qr import stable_qr

    lcg = sys.modules["linear_operator.utils.linear_cg"].linear_cg
    minres = sys.modules["linear_operator.utils.minres"].minres
    lay, n, batch = case["layout"], case["n"], case["batch"]
    dt = zoo.DT[case["dtype"]]
    u = case["util"]

    def h(t):
        return _hostile(t.to(dt) if t.dtype.is_floating_point else t, lay if (t.dtype.is_floating_point or lay == "slice") else None)

    A = h(zoo.pd_matrix(g, n, batch, kappa=20.0))
    B = h(torch.randn(*batch, n, 2, generator=g, dtype=torch.float64))
    tensors = {}
    if u in ("linear_cg", "linear_cg_guess"):
        x0 = h(torch.zeros(*batch, n, 2, dtype=torch.float64) + 0.1) if u.endswith("guess") else None
        tensors = dict(A=A, rhs=B, **({"initial_guess": x0} if x0 is not None else {}))
        thunk = lambda: lcg(A.matmul, B, n_tridiag=1, max_iter=2 * n, max_tridiag_iter=n, tolerance=1e-8, initial_guess=x0)  # noqa: E731
    elif u == "minres":
        sh = h(torch.tensor([0.0, 0.5], dtype=torch.float64))
        tensors = dict(A=A, rhs=B, shifts=sh)
        thunk = lambda: minres(A.matmul, B, shifts=sh)  # noqa: E731
    elif u in ("ciq", "ciq_reuse", "ciq_reuse_offset"):
        # contour-integral quadrature; re-using a quadrature rule (weights= / shifts= handed back by the caller, as the backward pass of
        # sqrt_inv_matmul does) with and without a shift offset
        from linear_operator.utils.contour_integral_quad import contour_integral_quad

        opd = DenseLinearOperator(A)
        tensors = dict(A=A, rhs=B)
        if u == "ciq":
            thunk = lambda: contour_integral_quad(opd, B, inverse=True, num_contour_quadrature=7)  # noqa: E731
        else:
            with warnings.catch_warnings():
                warnings.simplefilter("ignore")
                _, w0, _, s0 = contour_integral_quad(DenseLinearOperator(A.clone()), B.clone(), inverse=True, num_contour_quadrature=7)
            w0, s0 = h(w0.detach().clone()), h(s0.detach().clone())
            tensors.update(weights=w0, shifts=s0)
            off = 0.25 if u.endswith("offset") else 0
            thunk = lambda: contour_integral_quad(opd, B, inverse=True, weights=w0, shifts=s0, num_contour_quadrature=7, shift_offset=off)  # noqa: E731
    elif u == "lanczos":
        iv = h(torch.randn(*batch, n, 1, generator=g, dtype=torch.float64))
        tensors = dict(A=A, init_vecs=iv)
        thunk = lambda: lanczos_tridiag(A.matmul, n, dtype=dt, device=A.device, matrix_shape=A.shape[-2:], batch_shape=torch.Size(batch), init_vecs=iv)  # noqa: E731
    elif u in ("psd_safe_cholesky", "psd_safe_cholesky_jitter"):
        M = A
        if u.endswith("jitter"):
            F = torch.randn(*batch, n, max(1, n // 2), generator=g, dtype=torch.float64)
            M = h(F @ F.mT)
        tensors = dict(A=M)
        thunk = lambda: psd_safe_cholesky(M, upper=rng.random() < 0.5)  # noqa: E731
    elif u in ("stable_qr", "stable_pinverse"):
        M = h(torch.randn(*batch, n + 1, n, generator=g, dtype=torch.float64))
        if rng.random() < 0.5 and n > 1:
            M = h(torch.cat([M[..., :, :1], M[..., :, :1] * (1 + 1e-12), M[..., :, 2:]], -1).contiguous())
        tensors = dict(M=M)
        thunk = (lambda: stable_qr(M)) if u == "stable_qr" else (lambda: stable_pinverse(M))
    elif u == "toeplitz_matmul":
        c = h(torch.randn(*batch, n, generator=g, dtype=torch.float64))
        r = c.clone()
        tensors = dict(column=c, row=r, rhs=B)
        thunk = lambda: (T.toeplitz_matmul(c, r, B), T.sym_toeplitz_matmul(c, B))  # noqa: E731
    elif u == "sym_toeplitz_derivative":
        U, V = h(torch.randn(*batch, n, 2, generator=g, dtype=torch.float64)), h(torch.randn(*batch, n, 2, generator=g, dtype=torch.float64))
        tensors = dict(left=U, right=V)
        thunk = lambda: T.sym_toeplitz_derivative_quadratic_form(U, V)  # noqa: E731
    elif u in ("left_interp", "left_t_interp", "make_sparse", "make_sparse_allzero", "bdsmm"):
        m, k, N = 4, 2, n
        idx = h(torch.randint(0, N, (*batch, m, k), generator=g))
        val = h(torch.randn(*batch, m, k, generator=g, dtype=torch.float64))
        if u == "make_sparse_allzero":
            val = h(torch.zeros(*batch, m, k, dtype=torch.float64))
        R = h(torch.randn(*batch, N, 2, generator=g, dtype=torch.float64))
        R2 = h(torch.randn(*batch, m, 2, generator=g, dtype=torch.float64))
        tensors = dict(interp_indices=idx, interp_values=val, rhs=R, rhs2=R2)
        if u == "left_interp":
            thunk = lambda: I.left_interp(idx, val, R)  # noqa: E731
        elif u == "left_t_interp":
            thunk = lambda: I.left_t_interp(idx, val, R2, N)  # noqa: E731
        elif u == "bdsmm":
            thunk = lambda: S.bdsmm(S.make_sparse_from_indices_and_values(idx, val, N), R2)  # noqa: E731
        else:
            thunk = lambda: S.make_sparse_from_indices_and_values(idx, val, N)  # noqa: E731
    elif u in ("sparse_getitem", "sparse_getitem_empty", "sparse_repeat"):
        d2 = torch.randn(4, 5, generator=g, dtype=torch.float64) * (torch.rand(4, 5, generator=g) > 0.4)
        if u == "sparse_getitem_empty":
            d2[0] = 0
        sp = S.to_sparse(d2.to(dt))
        tensors = {"sparse.indices": sp._indices(), "sparse.values": sp._values()}
        if u == "sparse_repeat":
            thunk = lambda: S.sparse_repeat(sp, 2, 1)  # noqa: E731
        else:
            thunk = lambda: (S.sparse_getitem(sp, (0,)), S.sparse_getitem(sp, (slice(0, 1),)), S.sparse_getitem(sp, (slice(0, 2), 1)))  # noqa: E731
    elif u in ("apply_permutation", "inverse_permutation"):
        perm = h(torch.argsort(torch.rand(*batch, n, generator=g), dim=-1))
        tensors = dict(A=A, perm=perm)
        thunk = (lambda: (P.apply_permutation(A, perm, perm), P.apply_permutation(DenseLinearOperator(A), perm[..., :1], None))) if u == "apply_permutation" else (lambda: P.inverse_permutation(perm))
    else:
        raise ValueError(u)
    kw = dict(cls=u, path=u, tags=set(), info={case["dtype"], "layout:" + str(lay)} | ({"batched"} if batch else set()))
    _observe(ctx, u, thunk, tensors, kw, f"{u}|{lay}|{case['dtype']}|b{len(batch)}")
