"""C14 - copies, conversions and rebuilds denote the same matrix with the right dtype."""
import random
import warnings

import torch

from .. import compare, model, zoo
from . import common

BUDGET = {"quick": dict(seconds=35, cases=10**9), "thorough": dict(seconds=480, cases=10**9)}
RULE = ("cases: every operator class (nestings to depth 3, batch shapes, keyword / integer / boolean / sub-operator arguments) x source dtype "
        "x target dtype in {f32, f64}^2 x torch default dtype in {f32, f64} x conversion {clone, detach, to(dtype), to(device), type, double, "
        "float, cpu, evaluate_kernel, representation_tree()(*representation())}. oracle: same class; equal non-tensor arguments and public "
        "flags (orientation, concatenation axis, repeat counts, masks, interpolation indices); integer / boolean tensors bit-identical with "
        "unchanged dtype; dense value of the result (to_dense and denotation of its constructor arguments) equals the original cast to the "
        "target dtype; result.dtype is the target; clones share no storage; requires_grad_ reaches exactly the floating tensors; every "
        "tensor returned by to_dense / diagonal / matmul / indexing / sums has the operator's dtype when the default dtype differs. "
        "distinct key = (root class, conversion, source dtype, target dtype, default dtype)")
ASSUMPTIONS = ["lomon/model.py denotation of the result's stored constructor arguments", "structural tolerance after casting"]
REQUIRED_STATS = ("conversions",)

FLAGS = ("upper", "cat_dim", "batch_repeat", "diag_shape", "num_outputs_per_input")


def gen_cases(ctx):
    rng = ctx.rng
    classes = list(zoo.ALL_CLASSES)
    i = ctx.shard
    while True:
        root = classes[i % len(classes)]
        i += 1
        spec = common.random_spec(rng, root=root, maxdepth=2 if ctx.tier == "quick" else 3, sizes=[1, 2, 3, 4, 6],
                                  batches=[[], [], [2], [2, 1]], dtypes=("f32", "f64"))
        yield dict(spec=spec, target=rng.choice(["f32", "f64"]), default=rng.choice(["f32", "f64"]), rseed=rng.randrange(1 << 30))


def _leaves(op):
    try:
        return list(op.representation())
    except Exception:  # noqa: BLE001
        return []


def _flags(op):
    out = {}
    for f in FLAGS:
        if hasattr(op, f):
            v = getattr(op, f)
            if not torch.is_tensor(v) and not callable(v):
                out[f] = tuple(v) if isinstance(v, (list, torch.Size)) else v
    return out


def _nontensor_kwargs(op):
    out = {}
    for k, v in getattr(op, "_kwargs", {}).items():
        if k in ("dtype", "device", "output_device"):
            continue  # judged through result.dtype / the dense value
        if not torch.is_tensor(v) and not hasattr(v, "to_dense") and not callable(v) and not isinstance(v, (torch.dtype, torch.device)):
            out[k] = repr(dict(v)) if isinstance(v, dict) else repr(v)
    return out


def _int_tensors(op, acc=None):
    acc = [] if acc is None else acc
    for a in list(getattr(op, "_args", ())) + list(getattr(op, "_kwargs", {}).values()):
        if torch.is_tensor(a):
            if not a.dtype.is_floating_point:
                acc.append(a)
        elif hasattr(a, "_args"):
            _int_tensors(a, acc)
    return acc


def run_case(case, ctx):
    spec = case["spec"]
    old_default = torch.get_default_dtype()
    torch.set_default_dtype(zoo.DT[case["default"]])
    try:
        _run(case, ctx, spec)
    finally:
        torch.set_default_dtype(old_default)


def _run(case, ctx, spec):
    b = common.try_build(spec, ctx)
    if b is None:
        return
    op, dense = b.op, b.dense
    src = spec["dtype"]
    tgt = case["target"]
    tdt = zoo.DT[tgt]
    fixed_dtype = bool(zoo.spec_classes(spec) & {"Permutation", "TransposePermutation"})
    tags = common.spec_tags(spec)
    path = zoo.class_path(spec, 2)
    info = common.spec_info(spec) | {"src:" + src, "tgt:" + tgt, "default:" + case["default"]}
    kw = dict(cls=spec["cls"], path=path, tags=set(tags), info=info)
    ints0 = [t.clone() for t in _int_tensors(op)]
    convs = {
        "clone": (lambda: op.clone(), None),
        "detach": (lambda: op.detach(), None),
        "to(dtype)": (lambda: op.to(tdt), tdt),
        "to(dtype=)": (lambda: op.to(dtype=tdt), tdt),
        "to(device)": (lambda: op.to(torch.device("cpu")), None),
        "type": (lambda: op.type(tdt), tdt),
        "double": (lambda: op.double(), torch.float64),
        "float": (lambda: op.float(), torch.float32),
        "cpu": (lambda: op.cpu(), None),
        "rebuild": (lambda: op.representation_tree()(*op.representation()), None),
        "evaluate_kernel": (lambda: op.evaluate_kernel(), None),
    }
    for name, (thunk, want_dt) in convs.items():
        ctx.stat("conversions")
        want_dt = want_dt or dense.dtype
        if fixed_dtype and want_dt != dense.dtype:
            continue  # permutation operators have a fixed (float32) dtype by design
        key = f"{spec['cls']}|{name}|{src}|{tgt if want_dt != dense.dtype or 'to' in name or name == 'type' else src}|def:{case['default']}"
        with warnings.catch_warnings():
            warnings.simplefilter("ignore")
            res, ex = compare.attempt(thunk)
        k2 = dict(kw, tags=set(tags) | {name})
        if ex is not None:
            if compare.explicit_unsupported(ex):
                ctx.stat(f"unsupported:{name}:{spec['cls']}")
                continue
            ctx.fail(name, "exception", exc=ex, **kw)
            continue
        ok = True
        if name != "evaluate_kernel" and type(res) is not type(op):
            ctx.fail(name, "type", detail=f"{type(res).__name__} from {type(op).__name__}", **kw)
            ok = False
        if name != "evaluate_kernel" and ok:
            if _flags(res) != _flags(op):
                ctx.fail(name, "value", detail=f"public flags {_flags(res)} vs {_flags(op)}", **dict(kw, tags=set(tags) | {"flags"}))
                ok = False
            elif _nontensor_kwargs(res) != _nontensor_kwargs(op):
                ctx.fail(name, "value", detail=f"non-tensor arguments {_nontensor_kwargs(res)} vs {_nontensor_kwargs(op)}", **dict(kw, tags=set(tags) | {"kwargs"}))
                ok = False
            ints1 = _int_tensors(res)
            if len(ints1) != len(ints0) or any(a.dtype != c.dtype or not torch.equal(a, c) for a, c in zip(ints1, ints0)):
                ctx.fail(name, "value", detail="integer / boolean tensor arguments changed (dtype or values)", **dict(kw, tags=set(tags) | {"int_tensors"}))
                ok = False
        # dtype
        rd, ex = compare.attempt(lambda: res.dtype)
        if ex is not None or rd != want_dt:
            ctx.fail(name, "dtype", detail=f"result.dtype {rd} want {want_dt}", **kw)
            ok = False
        # value through to_dense and through the stored constructor arguments
        want = dense.to(want_dt)
        tol = max(common.spec_tol(spec, want_dt), 2e-4 if torch.float32 in (dense.dtype, want_dt) else 0)
        td, ex = compare.attempt(res.to_dense)
        if ex is not None:
            ctx.fail(name, "exception", exc=ex, **dict(kw, tags=set(tags) | {"at:to_dense"}))
            ok = False
        else:
            if td.dtype != want_dt:
                ctx.fail(name, "dtype", detail=f"to_dense() dtype {td.dtype} want {want_dt}", **dict(kw, tags=set(tags) | {"to_dense"}))
                ok = False
            if tuple(td.shape) != tuple(want.shape) or not compare.relerr(td, want) <= tol:
                ctx.fail(name, "value", err=compare.relerr(td, want) if tuple(td.shape) == tuple(want.shape) else None, detail="to_dense() of the result", **kw)
                ok = False
        dn, ex = compare.attempt(model.denote, res)
        if ex is None and (tuple(dn.shape) != tuple(want.shape) or not compare.relerr(dn, want) <= tol):
            ctx.fail(name, "value", detail="constructor arguments of the result denote another matrix", **dict(kw, tags=set(tags) | {"denote"}))
            ok = False
        # storage
        if name == "clone":
            p0 = {t.untyped_storage().data_ptr() for t in _leaves(op) if t.numel()}
            p1 = {t.untyped_storage().data_ptr() for t in _leaves(res) if t.numel()}
            if p0 & p1:
                ctx.fail(name, "mutation", detail="clone shares storage with the original", **dict(kw, tags=set(tags) | {"shared_storage"}))
                ok = False
        if name == "detach" and any(t.requires_grad for t in _leaves(res)):
            ctx.fail(name, "value", detail="detached operator has tensors requiring grad", **kw)
            ok = False
        if ok:
            ctx.ok(name, key, spec["n"] >= 2, sample=dict(spec=zoo.class_path(spec, 3), conversion=name, src=src, target=str(want_dt), default=case["default"]))
    # requires_grad propagation
    cl, ex = compare.attempt(lambda: op.clone().requires_grad_(True))
    if ex is None and cl is not None:
        leaves = _leaves(cl)
        bad = [i for i, t in enumerate(leaves) if t.dtype.is_floating_point != t.requires_grad]
        if bad:
            ctx.fail("requires_grad_", "value", detail=f"requires_grad flags wrong at representation positions {bad}", **kw)
        else:
            ctx.ok("requires_grad_", f"{spec['cls']}|requires_grad|{src}", bool(leaves))
    elif ex is not None and not compare.explicit_unsupported(ex):
        ctx.fail("requires_grad_", "exception", exc=ex, **kw)
    # dtype of returned tensors under a different default dtype
    if zoo.DT[case["default"]] != dense.dtype and not fixed_dtype:
        n, m = dense.shape[-2:]
        g = torch.Generator().manual_seed(case["rseed"])
        rhs = torch.randn(m, 2, generator=g, dtype=torch.float64).to(dense.dtype)
        obs = {"to_dense": lambda: op.to_dense(), "matmul": lambda: op @ rhs, "getitem_row": lambda: op[..., 0, :],
               "getitem_entry": lambda: op[..., 0, 0], "sum(-1)": lambda: op.sum(-1), "mT.to_dense": lambda: op.mT.to_dense()}
        if n == m:
            obs["diagonal"] = lambda: op.diagonal()
        for nm, f in obs.items():
            with warnings.catch_warnings():
                warnings.simplefilter("ignore")
                r, ex = compare.attempt(f)
            if ex is not None:
                continue
            if hasattr(r, "to_dense") and not torch.is_tensor(r):
                r, ex = compare.attempt(r.to_dense)
                if ex is not None:
                    continue
            if torch.is_tensor(r) and r.dtype != dense.dtype:
                ctx.fail("returned_dtype", "dtype", detail=f"{nm} returned {r.dtype} for an operator of dtype {dense.dtype} (default {case['default']})",
                         **dict(kw, tags=set(tags) | {nm}))
            else:
                ctx.ok("returned_dtype", f"{spec['cls']}|{nm}|{src}|def:{case['default']}", True)
