"""C12 - cached results are transparent: answers do not depend on query history."""
import contextlib
import pickle
import random
import sys
import warnings

import torch

from .. import compare, model, zoo
from ..monitors.hooks import Recorder
from . import common
from .c04 import settings_key, settings_stack

BUDGET = {"quick": dict(seconds=50, cases=10**9), "thorough": dict(seconds=720, cases=10**9)}
RULE = ("cases: histories of 2-7 steps on ONE operator object (PD operators of every class, nestings to depth 2, n 2..6, batch shapes): queries "
        "{to_dense, diagonal, cholesky(upper), root_decomposition(method), root_inv_decomposition(method), diagonalization(method), svd, eigh, "
        "eigvalsh, solve, logdet, inv_quad_logdet, preconditioner, sampling} and derivations {add_jitter, add_diagonal, add_low_rank, cat_rows, "
        "indexing, transpose, scaling, expansion} with settings changing between steps (max_cholesky_size, fast root decomposition, root size); "
        "query order adversarial (inverse root before root, upper before lower, method A then default). oracle: (a) freshness - the k-th answer in "
        "canonical form (root R via R R^T, eigen pairs via reconstruction and sorted values, Cholesky factor itself incl. orientation) equals "
        "the answer of the same query on a freshly built copy (same derivations, no earlier queries) under the same settings and RNG state; "
        "(b) every entry of the memo dictionaries of the history object and of the operators derived from it is a valid answer for its key on "
        "the matrix its owner denotes (Cholesky factor in the keyed orientation, roots multiply out to the matrix / its inverse, eigen pairs "
        "reconstruct it; cached dense values, diagonals, sizes); (c) memo entries of the whole lineage (history object, the operators it was "
        "derived from and into) are snapshotted when first seen and are bit-identical at the end of the history. Samples are drawn but not "
        "compared (roots are not unique); answers whose history-free value changes with the RNG state are counted as not comparable. "
        "Cache hits are counted (memo getters wrapped); a run without hits is inconclusive. distinct key = (root class, "
        "query, position in history, previous step, settings key) [round 4: settings include rank-truncating max_root_decomposition_size (n // 2); directed histories 'truncated Lanczos query -> derivation -> explicit-method query'; a rank-deficient answer is excused as a Krylov compression only when a Lanczos run happened during the query itself, or for default-method / Lanczos-named queries answered from the cache - never for queries naming a direct method; transplants from a rank-deficient parent root are counted, not judged] [round 6: queries chol_inverse / chol_upper_inverse reach into the factor objects the operator hands out] [round 7: query root_inv_lanczos_iv1 - a Lanczos inverse root from ONE supplied start vector on dense operators (the run also leaves a root in the cache, which later root queries read)]")
ASSUMPTIONS = ["a fresh build of the same spec is the history-free reference", "canonical forms remove the legitimate non-uniqueness of roots and eigenvectors",
               "tolerances: direct 1e-7 (f64) / 5e-3 (f32); 5e-3 when a Lanczos-based result is involved (lanczos.* hook events)"]
REQUIRED_STATS = ("queries", "cache_hits")

QUERIES = ["to_dense", "diagonal", "cholesky", "cholesky_upper", "chol_inverse", "chol_upper_inverse", "root", "root_cholesky", "root_lanczos", "root_symeig", "root_inv", "root_inv_lanczos", "root_inv_lanczos_iv1",
           "root_inv_cholesky", "diagonalization", "diagonalization_lanczos", "svd", "eigh", "eigvalsh", "solve", "logdet", "inv_quad_logdet",
           "preconditioner", "sample"]
DERIVS = ["add_jitter", "add_diagonal", "add_low_rank", "cat_rows", "getitem", "transpose", "scale", "expand"]
_HITS = [0]


def setup(ctx):
    m = sys.modules["linear_operator.utils.memoize"]
    if getattr(m, "_lomon_wrapped", False):
        return
    g1, g2 = m._get_from_cache, m._get_from_cache_ignore_args

    def w1(*a, **k):
        _HITS[0] += 1
        return g1(*a, **k)

    def w2(*a, **k):
        _HITS[0] += 1
        return g2(*a, **k)

    m._get_from_cache, m._get_from_cache_ignore_args = w1, w2
    m._lomon_wrapped = True


def gen_cases(ctx):
    rng = ctx.rng
    classes = list(zoo.ALL_CLASSES)
    i = ctx.shard
    pairs = [(a, b) for a in QUERIES for b in QUERIES]
    j = ctx.shard
    while True:
        root = classes[i % len(classes)]
        i += 1
        n = rng.choice([2, 3, 4, 6])
        batch = rng.choice([[], [], [2]])
        spec = zoo.gen_spec(rng, "pd", n, n, batch, depth=rng.choice([1, 1, 2]), dtype=rng.choice(["f64", "f64", "f32"]), root=root)
        if spec is None:
            continue
        if spec["cls"] == "Dense":
            spec["opt"]["kappa"] = 20.0
        steps = []
        # every ordered pair of queries occurs (swept by shard)
        a, b = pairs[j % len(pairs)]
        j += ctx.nshards
        seq = [a, b] + [rng.choice(QUERIES) for _ in range(rng.choice([0, 1, 3]))]
        rng.shuffle(seq) if rng.random() < 0.3 else None
        for q in seq:
            if rng.random() < 0.25:
                steps.append(dict(kind="derive", name=rng.choice(DERIVS)))
            steps.append(dict(kind="query", name=q, cfg=dict(max_cholesky_size=rng.choice([None, None, 0]), fast_root=rng.choice([None, None, False]),
                                                              max_root_decomposition_size=rng.choice([None, None, n + 2, max(1, n // 2)])), seed=rng.randrange(1 << 30)))
        if rng.random() < 0.15:
            # directed: a rank-truncated Lanczos answer lands in the cache, the object is derived from, and the derived object is asked
            # for an explicit method (derived classes that delegate to their parent must pass the method on, not read the parent's cache)
            trunc = dict(max_cholesky_size=rng.choice([None, 0]), fast_root=None, max_root_decomposition_size=max(1, n // 2))
            dflt = dict(max_cholesky_size=None, fast_root=None, max_root_decomposition_size=None)
            steps = [dict(kind="query", name=rng.choice(["root_inv_lanczos", "root_inv_lanczos_iv1", "root_lanczos", "diagonalization_lanczos", "root", "root_inv"]), cfg=trunc, seed=rng.randrange(1 << 30)),
                     dict(kind="derive", name=rng.choice(DERIVS)),
                     dict(kind="query", name=rng.choice(["root_cholesky", "root_symeig", "root_inv_cholesky", "cholesky", "solve", "logdet", "root", "root_inv"]), cfg=dflt, seed=rng.randrange(1 << 30))]
        yield dict(spec=spec, steps=steps[:8], rseed=rng.randrange(1 << 30))


def _dense(x):
    return x if torch.is_tensor(x) else x.to_dense()


def derive(op, dense, name, seed):
    """-> (derived op, its dense value)"""
    g = torch.Generator().manual_seed(seed)
    dt = dense.dtype
    batch = list(dense.shape[:-2])
    n = dense.shape[-1]
    if name == "add_jitter":
        j = (0.3, 1e-3, 1e-4)[seed % 3]
        return op.add_jitter(j), dense + j * torch.eye(n, dtype=dt)
    if name == "add_diagonal":
        d = (0.1 + torch.rand(n, generator=g, dtype=torch.float64)).to(dt)
        return op.add_diagonal(d), dense + torch.diag_embed(d)
    if name == "add_low_rank":
        V = torch.randn(*batch, n, 1, generator=g, dtype=torch.float64).to(dt)
        return op.add_low_rank(V), dense + V @ V.mT
    if name == "cat_rows":
        B = (torch.randn(*batch, 1, n, generator=g, dtype=torch.float64) * 0.1).to(dt)
        C = (B.to(torch.float64) @ torch.linalg.solve(dense.to(torch.float64), B.to(torch.float64).mT)).to(dt) + 2.0
        return op.cat_rows(B, C), torch.cat([torch.cat([dense, B.mT], -1), torch.cat([B, C], -1)], -2)
    if name == "getitem":
        k = max(1, n - 1)
        return op[..., :k, :k], dense[..., :k, :k]
    if name == "transpose":
        return op.mT, dense.mT
    if name == "scale":
        return op * 1.7, dense * 1.7
    if name == "expand":
        return op.expand(2, *batch, n, n), dense.expand(2, *batch, n, n)
    raise ValueError(name)


def query(op, name, seed, dense, rng_seed=None):
    """-> canonical answer (tensor)"""
    torch.manual_seed(seed if rng_seed is None else rng_seed)
    g = torch.Generator().manual_seed(seed)
    dt = dense.dtype
    batch = list(dense.shape[:-2])
    n = dense.shape[-1]
    rhs = torch.randn(*batch, n, 2, generator=g, dtype=torch.float64).to(dt)
    if name == "to_dense":
        return op.to_dense()
    if name == "diagonal":
        return op.diagonal()
    if name in ("cholesky", "cholesky_upper"):
        return _dense(op.cholesky(upper=name.endswith("upper")))
    if name in ("chol_inverse", "chol_upper_inverse"):
        # a query on the factor object the operator hands out (the upper factor is derived from the cached lower one by transposition)
        return _dense(op.cholesky(upper="upper" in name).inverse())
    if name.startswith("root_inv"):
        m = {"root_inv": None, "root_inv_lanczos": "lanczos", "root_inv_cholesky": "cholesky", "root_inv_lanczos_iv1": "lanczos"}[name]
        if name.endswith("iv1") and type(op).__name__ == "DenseLinearOperator":
            # round 7: ONE supplied start vector (dense operators only - C09's quantifier); the run leaves a root in the cache as well
            R = _dense(op.root_inv_decomposition(initial_vectors=rhs[..., :1], method=m).root)
        else:
            R = _dense(op.root_inv_decomposition(method=m).root)
        return R @ R.mT
    if name.startswith("root"):
        m = {"root": None, "root_cholesky": "cholesky", "root_lanczos": "lanczos", "root_symeig": "symeig"}[name]
        R = _dense(op.root_decomposition(method=m).root)
        return R @ R.mT
    if name.startswith("diagonalization"):
        w, Q = op.diagonalization(method="lanczos" if name.endswith("lanczos") else None)
        Q = _dense(Q)
        return (Q * w.unsqueeze(-2)) @ Q.mT
    if name == "svd":
        U, S, V = op.svd()
        return (_dense(U) * S.unsqueeze(-2)) @ _dense(V).mT
    if name == "eigh":
        w, Q = op.eigh()
        Q = _dense(Q)
        return (Q * w.unsqueeze(-2)) @ Q.mT
    if name == "eigvalsh":
        return torch.sort(op.eigvalsh(), -1)[0]
    if name == "solve":
        return op.solve(rhs)
    if name == "logdet":
        return op.logdet()
    if name == "inv_quad_logdet":
        iq, ld = op.inv_quad_logdet(rhs, logdet=True)
        return torch.cat([iq.reshape(-1), ld.reshape(-1)])
    if name == "preconditioner":
        from linear_operator import settings

        with settings.min_preconditioning_size(1), settings.max_preconditioner_size(2):
            closure, P, ld = op._preconditioner()
        if closure is None:
            return torch.zeros(1)
        return torch.cat([closure(rhs).reshape(-1), _dense(P).reshape(-1)])
    if name == "sample":
        return op.zero_mean_mvn_samples(2)
    raise ValueError(name)


def truth(name, dense64):
    """dense value a (deterministic) query must have, or None"""
    if name == "to_dense" or name.startswith(("root_symeig", "root_cholesky", "diagonalization", "svd", "eigh")) or name in ("root", "root_lanczos"):
        return dense64 if not name.startswith("root_inv") else None
    if name.startswith("root_inv"):
        return torch.linalg.inv(dense64)
    if name == "diagonal":
        return dense64.diagonal(dim1=-2, dim2=-1)
    if name == "eigvalsh":
        return torch.linalg.eigvalsh(dense64)
    if name == "logdet":
        return torch.logdet(dense64)
    return None


def _key_parts(key):
    name = key if isinstance(key, str) else (key[0] if isinstance(key, tuple) else key)
    if not isinstance(name, str):
        name = getattr(name, "__name__", str(name))
    args, kwargs = ((), {})
    if isinstance(key, tuple) and len(key) == 3:
        args = key[1]
        try:
            kwargs = pickle.loads(key[2])
        except Exception:  # noqa: BLE001
            kwargs = {}
    return name, tuple(args), kwargs


def canon(name, val, args, kwargs):
    """-> (kind, G, structural complaint): kind 'A' (G should equal the owner's matrix), 'Ainv', or None (entry kind not judged)"""
    if name == "cholesky":
        upper = bool(args[0]) if args else bool(kwargs.get("upper", False))
        L = _dense(val).to(torch.float64)
        off = torch.tril(L, -1) if upper else torch.triu(L, 1)
        bad = None
        if float(off.abs().max()) > 1e-8 * (float(L.abs().max()) + 1e-300):
            bad = f"cached Cholesky factor keyed upper={upper} is not triangular in that orientation"
        return "A", (L.mT @ L if upper else L @ L.mT), bad
    if name in ("root_decomposition", "root_inv_decomposition"):
        R = _dense(val.root if hasattr(val, "root") else val).to(torch.float64)
        return ("A" if name == "root_decomposition" else "Ainv"), R @ R.mT, None
    if name in ("symeig", "diagonalization") and isinstance(val, tuple) and len(val) == 2 and val[1] is not None:
        w, Q = val[0].to(torch.float64), _dense(val[1]).to(torch.float64)
        return "A", (Q * w.unsqueeze(-2)) @ Q.mT, None
    if name == "svd" and isinstance(val, tuple) and len(val) == 3:
        U, S, V = _dense(val[0]).to(torch.float64), val[1].to(torch.float64), _dense(val[2]).to(torch.float64)
        return "A", (U * S.unsqueeze(-2)) @ V.mT, None
    if name == "to_dense" and torch.is_tensor(val):
        return "A", val.to(torch.float64), None
    if name in ("_diagonal", "kernel_diag", "diagonal") and torch.is_tensor(val):
        return "diag", val.to(torch.float64), None
    if name == "size":
        return "size", torch.tensor(list(val), dtype=torch.float64), None
    return None, None, None


def entry_errors(owner, owner_dense):
    """relative error of every judged memo entry of `owner` against the matrix it denotes: {key: (name, err, complaint, G)}"""
    out = {}
    cache = getattr(owner, "_memoize_cache", None)
    if not cache:
        return out
    A = owner_dense.to(torch.float64)
    Ainv = None
    for key, val in list(cache.items()):
        name, args, kwargs = _key_parts(key)
        try:
            kind, G, bad = canon(name, val, args, kwargs)
            if kind is None:
                out[key] = (name, None, None, None)
                continue
            if kind == "Ainv":
                if Ainv is None:
                    Ainv = torch.linalg.inv(A)
                T = Ainv
            elif kind == "diag":
                T = A.diagonal(dim1=-2, dim2=-1)
            elif kind == "size":
                T = torch.tensor(list(A.shape), dtype=torch.float64)
            else:
                T = A
            if G.shape != T.shape:
                out[key] = (name, float("inf"), f"cached {name} has shape {tuple(G.shape)} for an owner of shape {tuple(T.shape)}", G)
                continue
            err = float((G - T).abs().max()) / (float(T.abs().max()) + 1e-300)
            out[key] = (name, err, bad, G)
        except Exception as e:  # noqa: BLE001 - an entry that cannot even be evaluated is reported as invalid
            out[key] = (name, float("inf"), f"cached {name} cannot be evaluated: {type(e).__name__}: {str(e)[:80]}", None)
    return out


def _is_compression(G, A, kind):
    """G == P A P (or its pseudo-inverse) for the orthogonal projector P onto range(G): what a Krylov method that exhausted its space
    (repeated eigenvalues, start vector in an invariant subspace) legitimately returns"""
    A = (A + A.mT) / 2
    U, S, _ = torch.linalg.svd((G + G.mT) / 2)
    keep = (S > 1e-5 * S[..., :1].clamp_min(1e-300)).to(torch.float64)
    Pm = (U * keep.unsqueeze(-2)) @ U.mT
    comp = Pm @ A @ Pm
    if kind == "Ainv":
        comp = torch.linalg.pinv(comp, hermitian=True, rtol=1e-9)
    return float((G - comp).abs().max()) / (float(comp.abs().max()) + 1e-300)


def validate_cache(ctx, owner, owner_dense, kw, where, allowance=0.0, fresh_answer=None, lanczos_seen=False, fresh_obj=None, seen=None, snaps=None):
    """every memo entry of `owner` must be a valid answer for its key on the matrix the owner denotes.  `allowance`: error the parent's
    own factorizations had (a transplanted factor may inherit it); `fresh_answer(key parts) -> [G...]`: what a history-free copy answers
    for the same key (an entry as inexact as the method itself is not a cache defect)."""
    loose = owner_dense.dtype == torch.float32
    for key, (name, err, bad, G) in entry_errors(owner, owner_dense).items():
        # direct factorizations are exact to rounding (plus the 1e-8 retry jitter of psd_safe_cholesky); anything a Lanczos run may
        # have produced carries its 1e-6 jitter and truncation
        tol = 5e-3 if loose or (lanczos_seen and name in ("root_decomposition", "root_inv_decomposition", "diagonalization", "symeig")) else 1e-6
        if seen is not None:
            # an entry is judged once, right after the step that created it (with that step's settings at hand)
            ident = (id(owner), key, id(owner._memoize_cache.get(key)))
            if ident in seen:
                continue
            seen.add(ident)
            if snaps is not None and G is not None:
                snaps[ident] = G.clone()
        if err is None:
            ctx.stat("cache_entries_of_unjudged_kind:" + name)
            continue
        ctx.stat("cache_entries_validated")
        if bad is None and not err <= tol + 20 * allowance:
            if lanczos_seen and G is not None and name in ("root_decomposition", "root_inv_decomposition", "diagonalization", "symeig"):
                try:
                    kind = "Ainv" if name == "root_inv_decomposition" else "A"
                    if _is_compression(G, owner_dense.to(torch.float64), kind) <= 10 * tol:
                        ctx.stat("cache_entry_is_krylov_compression:" + name)
                        continue
                except Exception:  # noqa: BLE001
                    pass
            if fresh_obj is not None and fresh_obj[0] is not None and not torch.is_tensor(fresh_obj[0]):
                # the history-free copy that ran only the last query holds an entry under the same key that is as inexact: the
                # method plants it with or without history (its accuracy is C06 / C09's subject)
                ferr = entry_errors(*fresh_obj).get(key)
                if ferr is not None and ferr[1] is not None and not ferr[1] <= tol:
                    ctx.stat("cache_entry_as_inexact_on_fresh_copy_after_same_query:" + name)
                    continue
            if fresh_answer is not None and G is not None:
                same = False
                fresh = fresh_answer(*_key_parts(key))
                for Gf in fresh:
                    if Gf is not None and Gf.shape == G.shape and float((G - Gf).abs().max()) / (float(Gf.abs().max()) + 1e-300) <= tol:
                        same = True
                        break
                if same:
                    ctx.stat("cache_entry_as_inexact_as_a_fresh_answer:" + name)
                    continue
                fr = [g for g in fresh if g is not None and g.shape == G.shape]
                if any(not float((a_ - b_).abs().max()) / (float(b_.abs().max()) + 1e-300) <= tol for i, a_ in enumerate(fr) for b_ in fr[:i]):
                    # history-free answers for this key differ among themselves (they depend on the random Lanczos start vector)
                    ctx.stat("cache_entry_of_rng_dependent_method_not_judged:" + name)
                    continue
            bad = f"cached {name} does not multiply out to its owner's matrix{' inverse' if name == 'root_inv_decomposition' else ''} (err {err:.2e}, allowance {allowance:.1e})"
        if bad:
            extra = {"entry_unevaluable"} if "cannot be evaluated" in bad else set()
            ctx.fail("cache_entry_valid", "stale-cache", **dict(kw, tags=set(kw["tags"]) | {"entry:" + name, "owner:" + where} | extra), detail=bad)
        else:
            ctx.ok("cache_entry_valid", f"{name}|{where}|{kw['cls']}", True)


def _both_compressions(name, got, want, Hd):
    if not (name.startswith(("root", "diagonalization")) or name in ("eigh", "svd")):
        return False
    kind = "Ainv" if name.startswith("root_inv") else "A"
    A = Hd.to(torch.float64)
    try:
        return all(_is_compression(G.to(torch.float64), A, kind) <= 5e-2 for G in (got, want))
    except Exception:  # noqa: BLE001
        return False


def _rng_dependent(spec, derivs, cfg_list, n, name, seed, want, tol):
    """does the history-free answer to this query change with the global RNG state - under the current settings or (when the history
    object answered from its cache) under one of the earlier settings the cached value may have been computed with"""
    seen = []
    for cfg in cfg_list:
        if cfg in seen:
            continue
        seen.append(cfg)
        if _rng_dependent1(spec, derivs, cfg, n, name, seed, tol):
            return True
    return False


def _rng_dependent1(spec, derivs, cfg, n, name, seed, tol):
    want = None
    for k in (0, 1, 2):
        with warnings.catch_warnings():
            warnings.simplefilter("ignore")
            F, Fd = _fresh(spec, derivs)
        if F is None:
            return False
        with settings_stack(cfg, n), warnings.catch_warnings():
            warnings.simplefilter("ignore")
            w2, ex = compare.attempt(query, F, name, seed, Fd, rng_seed=seed + 7919 * k)
        if ex is not None or w2 is None:
            return True
        if want is None:
            want = w2
            continue
        if tuple(w2.shape) != tuple(want.shape) or not compare.relerr(w2, want, scale=1e-6) <= tol:
            return True
    return False


def check_immutable(ctx, owners, snaps, kw):
    """memo entries of the history object and of every object it was derived from / into are never modified after they were
    written (a later query on a derived operator that updates a shared factor in place changes what the parent answers)"""
    for owner, dense in owners:
        cache = getattr(owner, "_memoize_cache", None) or {}
        errs = None
        for key, val in list(cache.items()):
            ident = (id(owner), key, id(val))
            if ident not in snaps:
                continue
            if errs is None:
                errs = entry_errors(owner, dense)
            name, err, bad, G = errs.get(key, (None, None, None, None))
            if G is None or G.shape != snaps[ident].shape:
                continue
            if not bool((torch.isnan(G) == torch.isnan(snaps[ident])).all()):
                d = float("nan")
            else:
                d = float((torch.nan_to_num(G) - torch.nan_to_num(snaps[ident])).abs().max())
            ctx.stat("cache_entries_checked_for_immutability")
            if d != 0.0 and not d <= 1e-12 * (float(torch.nan_to_num(snaps[ident]).abs().max()) + 1e-300):
                ctx.fail("cache_entry_immutable", "stale-cache", detail=f"cached {name} of a {type(owner).__name__} changed by {d:.2e} after it was written",
                         **dict(kw, tags=set(kw["tags"]) | {"entry:" + str(name)}))
            else:
                ctx.ok("cache_entry_immutable", f"{name}|{kw['cls']}", True)


def _fresh(spec, derivs):
    fb = zoo.build(spec)
    F, Fd = fb.op, fb.dense
    for dn, ds in derivs:
        r, exd = compare.attempt(derive, F, Fd, dn, ds)
        if exd is not None:
            return None, None
        F, Fd = r
    return F, Fd


def run_case(case, ctx):
    lineage, snaps_box, kw_box = [], {}, {}
    try:
        _run_history(case, ctx, lineage, snaps_box, kw_box)
    finally:
        if lineage and kw_box:
            check_immutable(ctx, lineage, snaps_box, kw_box)


def _run_history(case, ctx, keep_alive, snaps, kw_box):
    spec = case["spec"]
    b = common.try_build(spec, ctx)
    if b is None:
        return
    H, Hd = b.op, b.dense
    n = spec["n"]
    tags = common.spec_tags(spec)
    path = zoo.class_path(spec, 2)
    derivs = []  # (name, seed) applied so far
    cfgs = []  # settings seen so far
    prev = "start"
    dt = Hd.dtype
    allowance = 0.0
    lanczos_seen = False
    trunc_seen = False
    seen = set()
    # snaps: canonical value of every memo entry when it was first seen (entries must never change afterwards)
    keep_alive.append((H, Hd))  # ids stay unique while the objects live; (owner, dense) of the whole lineage
    kw_box.update(cls=spec["cls"], path=path, tags=set(tags), info=common.spec_info(spec))

    def fresh_answer(name, args, kwargs):
        out = []
        for cfg in cfgs[-4:]:
            for sd in (0, 1):
                with warnings.catch_warnings():
                    warnings.simplefilter("ignore")
                    F, Fd = _fresh(spec, derivs)
                if F is None or torch.is_tensor(F) or not hasattr(F, name):
                    continue
                with settings_stack(cfg, n), warnings.catch_warnings():
                    warnings.simplefilter("ignore")
                    torch.manual_seed(sd)
                    val, ex = compare.attempt(lambda: getattr(F, name)(*args, **kwargs))
                    if ex is None:
                        try:
                            out.append(canon(name, val, args, kwargs)[1])
                        except Exception:  # noqa: BLE001
                            pass
        return out

    for pos, st in enumerate(case["steps"]):
        if st["kind"] == "derive":
            seed = case["rseed"] + pos
            with warnings.catch_warnings():
                warnings.simplefilter("ignore")
                res, ex = compare.attempt(derive, H, Hd, st["name"], seed)
            if ex is not None:
                ctx.stat("derivation_rejected:" + st["name"] + ":" + ex.type)
                continue
            # a transplanted factor may inherit the error the parent's own factorizations have (measured after the derivation,
            # which may itself have computed them)
            for _, (nm, err, _b, _G) in entry_errors(H, Hd).items():
                if err is not None and err == err and err != float("inf"):
                    allowance = max(allowance, err)
            # a rank-deficient root (Lanczos truncated by max_root_decomposition_size < n) may approximate the matrix well while no
            # factor built from it can approximate the inverse: what a transplant of it should look like is not defined either
            for key, val in list(getattr(H, "_memoize_cache", {}).items()):
                if _key_parts(key)[0] == "root_decomposition" and hasattr(val, "root") and val.root.shape[-1] < Hd.shape[-1]:
                    allowance = max(allowance, 1.0)
                    ctx.stat("parent_root_rank_deficient")
            H, Hd = res
            derivs.append((st["name"], seed))
            if torch.is_tensor(H):
                return
            kw = dict(cls=spec["cls"], path=path, tags=set(tags) | {"derived:" + st["name"]}, info=common.spec_info(spec) | {"history:" + ">".join(d for d, _ in derivs), "prev:" + prev})
            ctx.stat("derivations")
            if allowance > 1e-2:
                # the parent's own factorizations are far from its matrix (exhausted Krylov spaces ...): what a transplant built on
                # them should look like is not defined
                ctx.stat("parent_factorizations_inexact_transplant_not_judged")
                for key in getattr(H, "_memoize_cache", {}):
                    seen.add((id(H), key, id(H._memoize_cache.get(key))))
                prev = "derive:" + st["name"]
                continue
            keep_alive.append((H, Hd))
            validate_cache(ctx, H, Hd, kw, "derived", allowance=allowance, lanczos_seen=lanczos_seen, seen=seen, snaps=snaps)
            prev = "derive:" + st["name"]
            continue
        name, cfg, seed = st["name"], st["cfg"], st["seed"]
        cfgs.append(cfg)
        kw = dict(cls=spec["cls"], path=path, tags=set(tags), info=common.spec_info(spec) | {"q:" + name, "prev:" + prev, "cfg:" + settings_key(cfg), f"pos{pos}"} | ({"derived"} if derivs else set()))
        kw0 = kw
        ctx.stat("queries")
        h0 = _HITS[0]
        # fresh copy: same spec, same derivations, no earlier queries; constructed like the history object under default settings
        with warnings.catch_warnings():
            warnings.simplefilter("ignore")
            F, Fd = _fresh(spec, derivs)
        ok_fresh = F is not None
        with settings_stack(cfg, n), Recorder(keep=("lanczos",), clone=False) as rec, warnings.catch_warnings():
            warnings.simplefilter("ignore")
            got, ex = compare.attempt(query, H, name, seed, Hd)
            hits = _HITS[0] - h0
            want, exf = compare.attempt(query, F, name, seed, Fd) if ok_fresh else (None, None)
        ctx.stat("cache_hits", hits)
        lanczos = rec.count("lanczos.end") > 0
        lanczos_seen = lanczos_seen or lanczos
        mrs = cfg.get("max_root_decomposition_size")
        trunc_seen = trunc_seen or (lanczos and mrs is not None and mrs < Hd.shape[-1])
        if lanczos_seen:
            kw = dict(kw, tags=set(kw["tags"]) | {"after_lanczos"})
        if not ok_fresh:
            continue
        if ex is not None or exf is not None:
            if (ex is None) != (exf is None):
                e_ = ex or exf
                if compare.explicit_unsupported(e_):
                    ctx.stat("unsupported_on_one_side")
                else:
                    ctx.fail(name, "exception", exc=e_, **dict(kw, tags=set(tags) | {"raises_only_with_history" if ex is not None else "raises_only_when_fresh"}))
            else:
                ctx.stat("query_raises_with_and_without_history:" + name)
            prev = name
            continue
        iterative = cfg.get("max_cholesky_size") == 0 and name in ("inv_quad_logdet", "logdet", "solve", "preconditioner")
        # "up to the tolerance of the methods involved": a cached answer read now may have been produced by a Lanczos run earlier
        tol = 5e-3 if (lanczos or dt == torch.float32 or "lanczos" in name or iterative or (lanczos_seen and hits > 0)) else 1e-7
        key = f"{spec['cls']}|{name}|p{min(pos, 4)}|{prev}|{settings_key(cfg)}"
        if name == "sample":
            # a sample is R z for whichever valid root is at hand: roots are not unique, so the draw itself legitimately depends on
            # which root was cached; the roots it reads are judged by the memo-validity oracle below (distribution: see C18)
            ctx.stat("samples_drawn_not_compared")
        elif got is None or want is None or (torch.is_tensor(want) and not torch.is_tensor(got)):
            ctx.fail(name, "value", detail=f"history object answered {type(got).__name__}, fresh copy {type(want).__name__}", **kw)
        elif tuple(got.shape) != tuple(want.shape):
            ctx.fail(name, "shape", detail=f"with history {tuple(got.shape)}, fresh {tuple(want.shape)}", **kw)
        else:
            err = compare.relerr(got, want, scale=1e-6)
            if not err <= tol * (100 if name.startswith("root_inv") else 1) and lanczos and _both_compressions(name, got, want, Hd):
                # a Krylov space exhausted early (repeated eigenvalues) or truncated (max_root_decomposition_size) gives the compression
                # onto a random subspace: both answers are what the method legitimately returns and they are not comparable with each
                # other.  Only when a Lanczos run took place during THIS query (on either object): an answer read from a cache is
                # excused by the RNG-dependence test below, which asks whether the query legitimately is Lanczos-based
                ctx.stat("answers_are_krylov_compressions_not_comparable")
            elif (not err <= tol * (100 if name.startswith("root_inv") else 1) and hits > 0 and lanczos_seen and name in ("root", "root_inv", "diagonalization", "root_lanczos", "root_inv_lanczos", "root_inv_lanczos_iv1", "diagonalization_lanczos")
                  and _both_compressions(name, got, got, Hd)):
                # memo keys carry the arguments, not the settings: a default-method / Lanczos answer computed by an earlier Lanczos run
                # (truncated by max_root_decomposition_size, or with an exhausted Krylov space) is what the cache legitimately returns
                # now; it is the compression the method produced then.  Queries naming a direct method (cholesky, symeig) are never
                # excused this way.
                ctx.stat("cached_answer_of_earlier_lanczos_run_is_compression_not_comparable")
            elif not err <= tol * (100 if name.startswith("root_inv") else 1) and _rng_dependent(spec, derivs, cfgs[-4:] if hits else [cfg], n, name, seed, want, tol):
                # the history-free answer itself changes with the global RNG state (random Lanczos start vectors whose Krylov space
                # is exhausted early): there is no single fresh answer to compare with
                ctx.stat("fresh_answer_depends_on_rng_not_comparable")
            elif not err <= tol * (100 if name.startswith("root_inv") else 1):
                ctx.fail(name, "stale-cache" if hits else "value", err=err, detail=f"answer differs from a fresh copy's by {err:.2e} (cache hits during this query: {hits})", **kw)
            else:
                ctx.ok(name, key, True, sample=dict(spec=zoo.class_path(spec, 3), history=[s["name"] for s in case["steps"][: pos + 1]], query=name, cache_hits=hits, err=err))
        prev = name
        validate_cache(ctx, H, Hd, dict(kw, tags=set(tags) | ({"after_lanczos"} if lanczos_seen else set())), "history_object" if not derivs else "derived", allowance=allowance, fresh_answer=fresh_answer, lanczos_seen=lanczos_seen, fresh_obj=(F, Fd), seen=seen, snaps=snaps)
