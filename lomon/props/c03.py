"""C03 - indexing and diagonal extraction match torch indexing of the dense matrix."""
import random

import torch

from .. import compare, model, zoo
from . import common

BUDGET = {"quick": dict(seconds=45, cases=10**9), "thorough": dict(seconds=600, cases=10**9)}
RULE = ("cases: seeded operator specs (every class at the root, nestings to depth 2-3, batch shapes (), (2,), (3,2), (2,1), (2,3,2)) x "
        "index tuples from the property's grammar {int incl. negative, slices selecting >= 1 element (None/negative/step/"
        "over-long/stop == size), one Ellipsis, 0-d / 1-d LongTensor, python list, rank-2 broadcasting LongTensors with a "
        "matrix position} of length <= ndim, debug on/off, plus diagonal(); oracle: the same index applied by torch to the "
        "dense matrix (value, shape); explicit not-supported errors are accepted and counted. Failing cases are shrunk "
        "(components -> ':' while the failure persists; operator -> Dense) before fingerprinting. distinct key = (root class, "
        "index-kind signature, batch rank, debug) [round 4: 3-d batches; Cat along any batch dimension]")
ASSUMPTIONS = ["torch indexing of the dense tensor is the specification", "lomon/model.py denotation table",
               "explicit not-supported = raise statement inside linear_operator with NotImplementedError or a declared-unsupported message"]
REQUIRED_STATS = ("indexed",)


# ------------------------------------------------------------------ index encoding
def decode(comp):
    k = comp[0]
    if k == "int":
        return comp[1]
    if k == "slice":
        return slice(comp[1], comp[2], comp[3])
    if k == "ellipsis":
        return Ellipsis
    if k == "tensor":
        return torch.tensor(comp[1], dtype=torch.long)
    if k == "list":
        return list(comp[1])
    raise ValueError(k)


def decode_index(enc):
    idx = tuple(decode(c) for c in enc)
    return idx[0] if len(idx) == 1 and enc[0][0] != "list" and False else idx


def rand_slice(rng, size):
    """a slice selecting >= 1 element of range(size)"""
    for _ in range(20):
        mode = rng.choice(["full", "start", "stop", "both", "neg", "step", "negstep", "overlong", "stop_eq_size"])
        if mode == "full":
            s = slice(None, None, None)
        elif mode == "start":
            s = slice(rng.randrange(0, size), None, None)
        elif mode == "stop":
            s = slice(None, rng.randrange(1, size + 1), None)
        elif mode == "both":
            a = rng.randrange(0, size)
            s = slice(a, rng.randrange(a + 1, size + 1), None)
        elif mode == "neg":
            a = rng.randrange(-size, 0)
            s = slice(a, None if rng.random() < 0.5 else rng.choice([None, -1, size]), None)
        elif mode == "step":
            s = slice(rng.choice([None, 0, 1]), None, rng.choice([2, 3]))
        elif mode == "negstep":
            return None  # torch does not support negative steps
        elif mode == "overlong":
            s = slice(rng.choice([None, 0]), size + rng.choice([1, 5]), None)
        else:
            s = slice(rng.randrange(0, size), size, None)
        if len(range(*s.indices(size))) >= 1:
            return ["slice", s.start, s.stop, s.step]
    return ["slice", None, None, None]


def gen_index(rng, shape):
    """encoded index tuple for a tensor of `shape` following the property's grammar"""
    nd = len(shape)
    style = rng.choice(["basic", "basic", "tensor1", "tensor1", "tensors", "rank2"])
    length = rng.randint(1, nd)
    use_ellipsis = rng.random() < 0.3
    if use_ellipsis:
        # positions: some leading, Ellipsis, some trailing
        lead = rng.randint(0, length - 1) if length > 1 else 0
        trail = length - 1 - lead
        dims = list(range(lead)) + [None] + list(range(nd - trail, nd))
    else:
        dims = list(range(length))
    tdims = [d for d in dims if d is not None]
    tensor_pos = set()
    k = rng.choice([1, 2, 3])
    tshape = [k]
    if style == "tensor1" and tdims:
        tensor_pos = {rng.choice(tdims)}
    elif style == "tensors" and len(tdims) >= 2:
        tensor_pos = set(rng.sample(tdims, rng.randint(2, len(tdims))))
    elif style == "rank2" and len(tdims) >= 2 and any(d >= nd - 2 for d in tdims):
        mat = [d for d in tdims if d >= nd - 2]
        first = rng.choice(mat)
        others = [d for d in tdims if d != first]
        tensor_pos = {first} | set(rng.sample(others, rng.randint(1, len(others))))
        tshape = [rng.choice([1, 2]), k]
    enc = []
    for d in dims:
        if d is None:
            enc.append(["ellipsis"])
            continue
        size = shape[d]
        if d in tensor_pos:
            r = rng.random()
            if len(tshape) == 2:
                # mutually broadcasting rank-2 tensors: (a, k), (1, k), (a, 1) or (k,)
                a, kk = tshape
                shp = rng.choice([[a, kk], [1, kk], [a, 1], [kk]])
                n = 1
                for x in shp:
                    n *= x
                vals = torch.tensor([rng.randrange(-size, size) for _ in range(n)]).reshape(shp).tolist()
                enc.append(["tensor", vals])
            elif r < 0.15:
                enc.append(["tensor", rng.randrange(-size, size)])  # 0-d
            elif r < 0.35:
                enc.append(["list", [rng.randrange(-size, size) for _ in range(k)]])
            else:
                enc.append(["tensor", [rng.randrange(-size, size) for _ in range(k)]])
        else:
            r = rng.random()
            if r < 0.3:
                enc.append(["int", rng.randrange(-size, size)])
            else:
                enc.append(rand_slice(rng, size) or ["slice", None, None, None])
    return enc


def index_sig(enc, nd):
    """kind signature per position relative to the matrix dims (for coverage keys and tags)"""
    out = []
    n_after = 0
    pos = []
    # resolve positions
    if any(c[0] == "ellipsis" for c in enc):
        e = [c[0] for c in enc].index("ellipsis")
        pos = list(range(e)) + [None] + list(range(nd - (len(enc) - e - 1), nd))
    else:
        pos = list(range(len(enc)))
    for c, d in zip(enc, pos):
        if d is None:
            out.append("...")
            continue
        where = "row" if d == nd - 2 else "col" if d == nd - 1 else "batch"
        k = c[0]
        if k == "int":
            out.append(("int<0" if c[1] < 0 else "int") + "@" + where)
        elif k == "slice":
            kind = "slice"
            if c[1] is None and c[2] is None and c[3] is None:
                kind = ":"
            elif c[3] not in (None, 1):
                kind = "step"
            elif (c[1] is not None and c[1] < 0) or (c[2] is not None and c[2] < 0):
                kind = "negslice"
            out.append(kind + "@" + where)
        elif k == "list":
            out.append("list@" + where)
        else:
            v = c[1]
            rank = 0 if not isinstance(v, list) else (2 if v and isinstance(v[0], list) else 1)
            out.append(f"tensor{rank}@" + where)
    return out


def tags_of(enc, shape):
    nd = len(shape)
    sig = index_sig(enc, nd)
    tags = {s for s in sig if s not in ("...",) and not s.startswith(":@")}
    if "..." in sig:
        tags.add("ellipsis")
    # explicit stop == size on some dimension
    if any(c[0] == "ellipsis" for c in enc):
        e = [c[0] for c in enc].index("ellipsis")
        pos = list(range(e)) + [None] + list(range(nd - (len(enc) - e - 1), nd))
    else:
        pos = list(range(len(enc)))
    for c, d in zip(enc, pos):
        if d is not None and c[0] == "slice" and c[2] is not None and c[2] == shape[d]:
            tags.add("stop==size")
        if d is not None and c[0] == "slice" and c[2] is not None and c[2] > shape[d]:
            tags.add("stop>size")
    return tags


# ------------------------------------------------------------------ workload
def gen_cases(ctx):
    rng = ctx.rng
    classes = list(zoo.ALL_CLASSES)
    i = 0
    while True:
        root = classes[(i + ctx.shard) % len(classes)]
        i += 1
        spec = common.random_spec(rng, root=root, maxdepth=2 if ctx.tier == "quick" else 3,
                                  batches=[[], [], [2], [3, 2], [2, 1], [2, 3, 2]], sizes=[1, 2, 3, 4, 5, 6, 8],
                                  kinds=("rect", "square", "sym", "psd", "pd", "tril"))
        shape = list(spec["batch"]) + [spec["n"], spec["m"]]
        idxs = [gen_index(rng, shape) for _ in range(8)]
        yield dict(spec=spec, indices=idxs, debug=rng.random() < 0.7)


def _observe_index(op, dense, enc):
    """-> ('ok', err) | ('unsupported', Exc) | (mode, detail/Exc)"""
    idx = decode_index(enc)
    try:
        ref = dense[idx]
    except Exception as e:  # torch rejects: belongs to C19
        return "torch_rejects", str(e)[:80]
    got, ex = compare.attempt(lambda: op[idx])
    if ex:
        if compare.explicit_unsupported(ex):
            return "unsupported", ex
        return "exception", ex
    extra = None
    if not torch.is_tensor(got):
        if not hasattr(got, "to_dense"):
            return "type", type(got).__name__
        res_op = got
        got, ex = compare.attempt(res_op.to_dense)
        if ex:
            return "exception", ex
        den, ex2 = compare.attempt(model.denote, res_op)
        if ex2 is None:
            extra = den
    if tuple(got.shape) != tuple(ref.shape):
        return "shape", f"got {tuple(got.shape)} want {tuple(ref.shape)}"
    return "value", (got, ref, extra)


def _sig(mode, payload):
    if mode == "exception":
        return (mode, payload.type, payload.frame)
    return (mode, "", "")


def _judge(mode, payload, tol):
    """-> failing (mode, exc, err, detail) or None"""
    if mode in ("torch_rejects", "unsupported"):
        return None
    if mode == "exception":
        return ("exception", payload, None, None)
    if mode in ("type", "shape"):
        return (mode, None, None, payload)
    got, ref, extra = payload
    err = compare.relerr(got, ref)
    if not err <= tol:
        return ("value", None, err, None)
    if extra is not None and tuple(extra.shape) == tuple(ref.shape):
        err2 = compare.relerr(extra, ref)
        if not err2 <= tol:
            return ("value_denote", None, err2, None)
    return None


def run_case(case, ctx):
    from linear_operator import settings

    spec = case["spec"]
    b = common.try_build(spec, ctx)
    if b is None:
        return
    op, dense = b.op, b.dense
    shape = list(dense.shape)
    tol = common.spec_tol(spec)
    stags = common.spec_tags(spec)
    sinfo = common.spec_info(spec)
    path = zoo.class_path(spec, 2)
    dbg = case.get("debug", True)
    with settings.debug(dbg):
        # diagonal
        if spec["n"] == spec["m"]:
            got, ex = compare.attempt(lambda: op.diagonal())
            ref = torch.diagonal(dense, dim1=-2, dim2=-1)
            if ex and compare.explicit_unsupported(ex):
                ctx.stat(f"unsupported:{spec['cls']}:{ex.frame}")
                ctx.ok("diagonal.unsupported", None, False)
            elif ex:
                ctx.fail("diagonal", "exception", cls=spec["cls"], path=path, exc=ex, tags=stags, info=sinfo)
            elif tuple(got.shape) != tuple(ref.shape):
                ctx.fail("diagonal", "shape", cls=spec["cls"], path=path, tags=stags, info=sinfo, detail=f"got {tuple(got.shape)} want {tuple(ref.shape)}")
            elif not compare.relerr(got, ref) <= tol:
                ctx.fail("diagonal", "value", cls=spec["cls"], path=path, tags=stags, info=sinfo, err=compare.relerr(got, ref))
            else:
                ctx.ok("diagonal", f"{path}|{spec['dtype']}|b{len(spec['batch'])}", spec["n"] >= 2)
        for enc in case["indices"]:
            mode, payload = _observe_index(op, dense, enc)
            ctx.stat("indexed")
            if mode == "torch_rejects":
                ctx.stat("torch_rejects")
                continue
            if mode == "unsupported":
                ctx.stat(f"unsupported:{spec['cls']}:{payload.frame}")
                ctx.ok("getitem.unsupported", None, False)
                continue
            bad = _judge(mode, payload, tol)
            sig = index_sig(enc, len(shape))
            if bad is None:
                ctx.ok("getitem", f"{spec['cls']}|{','.join(sig)}|b{len(spec['batch'])}|dbg{int(dbg)}", spec["n"] >= 2 or spec["m"] >= 2,
                       sample=dict(spec=zoo.class_path(spec, 3), shape=shape, index=enc, debug=dbg))
                continue
            # ---- shrink: components -> ':' while the same failure persists
            fsig = (bad[0],) + ((bad[1].type, bad[1].frame) if bad[1] else ("", ""))
            cur = [list(c) for c in enc]

            def still(e, o=op, d=dense):
                m2, p2 = _observe_index(o, d, e)
                b2 = _judge(m2, p2, tol)
                return b2 is not None and ((b2[0],) + ((b2[1].type, b2[1].frame) if b2[1] else ("", ""))) == fsig

            for i in range(len(cur)):
                if cur[i][0] in ("ellipsis",) or cur[i] == ["slice", None, None, None]:
                    continue
                trial = [list(c) for c in cur]
                trial[i] = ["slice", None, None, None]
                if still(trial):
                    cur = trial
            # drop trailing full slices / ellipsis
            while len(cur) > 1 and cur[-1] in (["slice", None, None, None], ["ellipsis"]):
                trial = cur[:-1]
                if still(trial):
                    cur = trial
                else:
                    break
            # is the failure class specific?  same index on a plain dense operator of the same shape
            cls_blame = spec["cls"]
            pblame = path
            dspec = dict(cls="Dense", kind="rect", n=spec["n"], m=spec["m"], batch=spec["batch"], dtype=spec["dtype"], seed=1, opt={}, children=[])
            db = zoo.build(dspec)
            if still(cur, db.op, db.dense):
                cls_blame, pblame = "LinearOperator", "any"
                tags = tags_of(cur, shape)
            else:
                tags = tags_of(cur, shape) | stags
            if not dbg:
                # debug-off only matters if the same case passes with debug on
                with settings.debug(True):
                    if not still(cur):
                        tags.add("debug_off")
            ctx.fail("getitem", bad[0], cls=cls_blame, path=pblame, exc=bad[1], err=bad[2], detail=bad[3], tags=tags,
                     info=set(sinfo) | {"idx:" + ",".join(index_sig(cur, len(shape)))},
                     case=dict(spec=spec, indices=[cur], debug=dbg))
