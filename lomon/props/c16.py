"""C16 - psd_safe_cholesky perturbs minimally, per batch member, or fails loudly."""
import warnings

import torch

from .. import compare

BUDGET = {"quick": dict(seconds=20, cases=10**9), "thorough": dict(seconds=240, cases=10**9)}
RULE = ("cases: symmetric matrices by member family {pd, singular psd, slightly indefinite, strongly indefinite, nan}, sizes 1..10, "
        "batch shapes incl. mixed good/bad members, f32/f64, upper in {T,F}, jitter / max_tries explicit or from settings, "
        "contiguous and transposed-view inputs; also DenseLinearOperator.cholesky(). oracle per member: L L^T - A_b = delta_b I with "
        "delta_b in {0} U {jitter 10^i}, delta_b = 0 iff torch's own factorization succeeds, the previous level fails for that member, "
        "warning iff some delta > 0, NanError / NotPSDError exactly when expected, factor finite and triangular, input untouched. "
        "distinct key = (member-family multiset, dtype, upper, outcome, jitter source) [added: jitter taken from settings.cholesky_jitter with only the value for the matrix's own dtype given]")
ASSUMPTIONS = ["torch.linalg.cholesky_ex on a single member decides 'numerically positive definite'",
               "jitter levels are jitter*10^i added cumulatively exactly as documented"]
REQUIRED_STATS = ("calls",)
FAMS = ["pd", "pd", "singular", "slight", "strong", "nan"]


def member(g, fam, n, dtype):
    a = torch.randn(n, n + 2, generator=g, dtype=torch.float64)
    a = a @ a.T / n + 0.5 * torch.eye(n, dtype=torch.float64)
    if fam == "singular":
        r = torch.randn(n, max(1, n // 2), generator=g, dtype=torch.float64)
        a = r @ r.T
    elif fam == "slight":
        w, q = torch.linalg.eigh(a)
        w[0] = -float(torch.rand((), generator=g)) * (3e-6 if dtype == torch.float32 else 3e-8)
        a = (q * w) @ q.T
    elif fam == "strong":
        w, q = torch.linalg.eigh(a)
        w[0] = -1.0 - float(torch.rand((), generator=g))
        a = (q * w) @ q.T
    elif fam == "nan":
        a[0, 0] = float("nan")
    a = (a + a.T) / 2
    return a.to(dtype)


def gen_cases(ctx):
    rng = ctx.rng
    while True:
        n = rng.choice([1, 2, 3, 4, 6, 10])
        batch = rng.choice([[], [], [2], [3], [2, 2], [4]])
        nb = 1
        for b in batch:
            nb *= b
        # nan / strong are rare so that the other outcomes are reached inside batches
        fams = [rng.choice(FAMS if rng.random() < 0.35 else ["pd", "pd", "singular", "slight"]) for _ in range(nb)]
        yield dict(n=n, batch=batch, fams=fams, dtype=rng.choice(["f32", "f64"]), upper=rng.random() < 0.4,
                   jitter=rng.choice([None, None, 1e-6, 1e-4, 1e-3]), max_tries=rng.choice([None, None, 1, 2, 5]),
                   via=rng.choice(["function", "function", "function", "settings", "operator"]),
                   layout=rng.choice(["contiguous", "transposed"]), seed=rng.randrange(1 << 30))


def reference(A, jitter, max_tries):
    """per member: ('ok', level or -1) | ('notpsd',)   - independent single-member loop"""
    out = []
    flat = A.reshape(-1, *A.shape[-2:])
    for b in range(flat.shape[0]):
        Ab = flat[b].clone()
        if int(torch.linalg.cholesky_ex(Ab).info) == 0:
            out.append(("ok", -1, 0.0))
            continue
        prev, res = 0, ("notpsd", None, None)
        for i in range(max_tries):
            new = jitter * (10**i)
            Ab.diagonal().add_(new - prev)
            prev = new
            if int(torch.linalg.cholesky_ex(Ab).info) == 0:
                res = ("ok", i, new)
                break
        out.append(res)
    return out


def run_case(case, ctx):
    from linear_operator import settings
    from linear_operator.operators import DenseLinearOperator
    from linear_operator.utils.cholesky import psd_safe_cholesky
    from linear_operator.utils.errors import NanError, NotPSDError
    from linear_operator.utils.warnings import NumericalWarning

    dt = torch.float32 if case["dtype"] == "f32" else torch.float64
    g = torch.Generator().manual_seed(case["seed"])
    n, batch = case["n"], case["batch"]
    mats = [member(g, f, n, dt) for f in case["fams"]]
    A = torch.stack(mats).reshape(*batch, n, n) if batch else mats[0]
    if case["layout"] == "transposed":
        A = A.mT.contiguous().mT  # same values (symmetric up to rounding of the stored entries), non-contiguous
    A0 = A.clone()
    ver = A._version
    jit = case["jitter"] if case["jitter"] is not None else (1e-6 if dt == torch.float32 else 1e-8)
    tries = case["max_tries"] if case["max_tries"] is not None else 3
    via = case["via"]
    if via == "operator" and n == 1:
        via = "function"  # 1x1 operators take a scalar sqrt(clamp) shortcut that never reaches psd_safe_cholesky
    upper = case["upper"]
    ctx.stat("calls")

    def call():
        if via == "function":
            return psd_safe_cholesky(A, upper=upper, jitter=case["jitter"], max_tries=case["max_tries"])
        kw = {}
        cms = []
        if case["jitter"] is not None:
            # the value for the matrix's own dtype; half of the cases give only that one (the other slots keep their defaults)
            if case["seed"] % 2 if "seed" in case else False:
                cms.append(settings.cholesky_jitter(**{("double_value" if dt == torch.float64 else "float_value"): case["jitter"]}))
            else:
                cms.append(settings.cholesky_jitter(float_value=case["jitter"], double_value=case["jitter"]))
        if case["max_tries"] is not None:
            cms.append(settings.cholesky_max_tries(case["max_tries"]))
        import contextlib

        with contextlib.ExitStack() as st:
            for c in cms:
                st.enter_context(c)
            if via == "settings":
                return psd_safe_cholesky(A, upper=upper, **kw)
            return DenseLinearOperator(A).cholesky(upper=upper).to_dense()

    with warnings.catch_warnings(record=True) as wlist:
        warnings.simplefilter("always")
        got, ex = compare.attempt(call)
    warned = any(issubclass(w.category, NumericalWarning) for w in wlist)
    has_nan = bool(torch.isnan(A0).any())
    ref = reference(A0, jit, tries)
    famkey = "+".join(sorted(set(case["fams"])))
    tags = {via}
    if len(set(case["fams"])) > 1:
        tags.add("mixed_batch")
    if upper:
        tags.add("upper")
    info = {case["dtype"], "fams:" + famkey, "jitter:" + ("arg" if case["jitter"] is not None else "default"), case["layout"]}
    kw = dict(cls="psd_safe_cholesky" if via != "operator" else "DenseLinearOperator.cholesky", path=via, tags=tags, info=info)
    any_fail_first = any(r[1] != -1 for r in ref)
    # input untouched
    if A._version != ver or not torch.equal(torch.nan_to_num(A), torch.nan_to_num(A0)):
        ctx.fail("input_untouched", "mutation", **kw)
    else:
        ctx.ok("input_untouched", f"{famkey}|{case['dtype']}|{via}")
    # expected outcome
    if has_nan and any_fail_first:
        want = "NanError"
    elif any(r[0] == "notpsd" for r in ref):
        want = "NotPSDError"
    else:
        want = "ok"
    outcome = "ok" if ex is None else ex.type
    key = f"{famkey}|{case['dtype']}|up{int(upper)}|{want}|{'arg' if case['jitter'] is not None else 'default'}|{via}"
    if outcome != want:
        ctx.fail("outcome", "exception" if ex else "no-raise", exc=ex, detail=f"want {want} got {outcome}", **kw)
        return
    ctx.ok("outcome", key, n >= 2)
    if ex is not None:
        return
    L = got
    Lf = L.reshape(-1, n, n).to(torch.float64)
    Af = A0.reshape(-1, n, n).to(torch.float64)
    if not torch.isfinite(L).all():
        ctx.fail("finite", "value", **kw)
        return
    tri = torch.triu(Lf, 1) if not upper else torch.tril(Lf, -1)
    if tri.abs().max() > 0:
        ctx.fail("triangular", "value", detail="factor not triangular in the requested orientation", **kw)
    else:
        ctx.ok("triangular", key, n >= 2)
    eps = 1e-5 if dt == torch.float32 else 1e-13
    any_delta = False
    for b in range(Lf.shape[0]):
        r = ref[b]
        Lb = Lf[b]
        rec = Lb.mT @ Lb if upper else Lb @ Lb.mT
        E = rec - Af[b]
        scale = float(Af[b].abs().max()) + r[2]
        off = (E - torch.diag_embed(E.diagonal())).abs().max()
        dvals = E.diagonal()
        delta = float(dvals.mean())
        if off > eps * scale * n or (dvals - delta).abs().max() > eps * scale * n:
            ctx.fail("perturbation_is_multiple_of_identity", "value", err=float(max(off, (dvals - delta).abs().max())), **kw)
            continue
        want_delta = r[2]
        if abs(delta - want_delta) > eps * scale * n + 1e-3 * want_delta:
            lvl = "none" if r[1] == -1 else f"level{r[1]}"
            ctx.fail("minimal_jitter_per_member", "value", err=abs(delta - want_delta),
                     detail=f"member {b} ({case['fams'][b]}): observed delta {delta:.3e}, minimal {want_delta:.3e} ({lvl})", **kw)
            continue
        any_delta = any_delta or want_delta > 0
        ctx.ok("minimal_jitter_per_member", key + f"|lvl{r[1]}", n >= 2,
               sample=dict(n=n, batch=batch, fams=case["fams"], dtype=case["dtype"], upper=upper, jitter=case["jitter"],
                           max_tries=case["max_tries"], delta=delta, level=r[1]))
    want_warn = any(r[1] != -1 for r in ref)
    if warned != want_warn:
        ctx.fail("warning_iff_jitter", "no-raise" if want_warn else "value", detail=f"warned={warned} want={want_warn}", **kw)
    else:
        ctx.ok("warning_iff_jitter", key, n >= 2)
