"""C20 - utility kernels equal their dense definitions."""
import random

import torch

from .. import compare, model

BUDGET = {"quick": dict(seconds=25, cases=10**9), "thorough": dict(seconds=300, cases=10**9)}
RULE = ("cases: seeded inputs over the documented domain of linear_operator.utils.{toeplitz,interpolation,sparse,permutation,qr,"
        "pinverse} and linear_operator.dsmm (+ its gradient): sizes 1..8, batch shapes (), (2,), (3,2) and broadcasting against "
        "the right-hand side, vector and matrix right-hand sides, duplicate interpolation indices, zero values, empty sparse "
        "tensors, repeats of dimensions of size > 1, full / partial / batched permutations, tall / square / fat / nearly "
        "rank-deficient matrices, f32/f64. oracle: dense definitions written with plain torch. distinct key = (function, batch "
        "rank, rhs kind, dtype, variant) [added: exactly rank-deficient QR / pseudo-inverse inputs (zero column / row, zero matrix, repeated integer column): R stabilised (|R_ii| >= 1e-6), Q R = A, finite pseudo-inverse] [round 4: row / column / both / partial permutations of rectangular (tall and fat) matrices; pseudo-inverse tolerance max(base, 50 cond eps)]")
ASSUMPTIONS = ["dense definitions in lomon/model.py (explicit Toeplitz / interpolation matrices) and torch (to_dense, gather, pinv)"]
REQUIRED_STATS = ("functions",)


def gen_cases(ctx):
    while True:
        yield dict(seed=ctx.rng.randrange(1 << 30))


def _pref(M, lp, rp):
    out = M
    if lp is not None:
        out = torch.gather(out, -2, lp.unsqueeze(-1).expand(*torch.broadcast_shapes(lp.shape[:-1], out.shape[:-2]), lp.shape[-1], out.shape[-1]))
    if rp is not None:
        out = torch.gather(out, -1, rp.unsqueeze(-2).expand(*torch.broadcast_shapes(rp.shape[:-1], out.shape[:-2]), out.shape[-2], rp.shape[-1]))
    return out


def run_case(case, ctx):
    from linear_operator import dsmm
    from linear_operator.operators import DenseLinearOperator
    from linear_operator.utils import interpolation as I
    from linear_operator.utils import permutation as P
    from linear_operator.utils import sparse as S
    from linear_operator.utils import toeplitz as T
    from linear_operator.utils.pinverse import stable_pinverse
    from linear_operator.utils.qr import stable_qr

    rng = random.Random(case["seed"])
    g = torch.Generator().manual_seed(case["seed"])
    n = rng.randint(1, 8)
    batch = rng.choice([(), (), (2,), (3, 2)])
    dt = rng.choice([torch.float64, torch.float64, torch.float32])
    dn = "f64" if dt == torch.float64 else "f32"
    tol = 1e-9 if dt == torch.float64 else 2e-4

    def randn(*shape):
        return torch.randn(tuple(shape), generator=g, dtype=torch.float64).to(dt)

    def chk(name, f, ref, variant="", tol_=None, nontrivial=True, tags=()):
        ctx.stat("functions")
        ctx.stat("fn:" + name)
        key = f"{name}|b{len(batch)}|{variant}|{dn}"
        kw = dict(cls=name, path=variant, tags=set(tags), info={dn, f"b{len(batch)}"})
        want, ex0 = compare.attempt(ref)
        if ex0 is not None:
            ctx.inconclusive(f"reference failed: {name}: {ex0.type}")
            return
        got, ex = compare.attempt(f)
        if ex is not None:
            ctx.fail(name, "exception", exc=ex, **kw)
            return
        if not torch.is_tensor(got):
            ctx.fail(name, "type", detail=type(got).__name__, **kw)
            return
        if got.is_sparse:
            got = got.to_dense()
        if tuple(got.shape) != tuple(want.shape):
            ctx.fail(name, "shape", detail=f"got {tuple(got.shape)} want {tuple(want.shape)}", **kw)
            return
        err = compare.relerr(got, want)
        t = tol if tol_ is None else tol_
        if not err <= t:
            ctx.fail(name, "value", err=err, **kw)
            return
        ctx.ok(name, key, nontrivial, sample=dict(function=name, variant=variant, n=n, batch=list(batch), dtype=dn, err=err),
               near=dict(function=name, err=err, tol=t) if err > t / 10 else None)

    # ---------------- Toeplitz
    c = randn(*batch, n)
    r = randn(*batch, n)
    r[..., 0] = c[..., 0]
    rb = rng.choice([batch, (), (1,) * len(batch)])
    rbk = "same" if rb == batch else ("none" if rb == () else "ones")
    X = randn(*rb, n, rng.randint(1, 3))
    Tm = model.toeplitz_general(c, r)
    Ts = model.toeplitz_sym(c)
    chk("toeplitz_matmul", lambda: T.toeplitz_matmul(c, r, X), lambda: Tm @ X, "mat:" + rbk)
    chk("sym_toeplitz_matmul", lambda: T.sym_toeplitz_matmul(c, X), lambda: Ts @ X, "mat:" + rbk)
    if not batch:
        v = randn(n)
        chk("toeplitz_matmul", lambda: T.toeplitz_matmul(c, r, v), lambda: Tm @ v, "vec", tags={"rhs:vec"})
        chk("sym_toeplitz_matmul", lambda: T.sym_toeplitz_matmul(c, v), lambda: Ts @ v, "vec", tags={"rhs:vec"})
        chk("toeplitz", lambda: T.toeplitz(c, r), lambda: Tm, "build")
        chk("sym_toeplitz", lambda: T.sym_toeplitz(c), lambda: Ts, "build")
        i, j = rng.randrange(n), rng.randrange(n)
        chk("toeplitz_getitem", lambda: T.toeplitz_getitem(c, r, i, j).reshape(()), lambda: Tm[i, j], "entry")
        chk("sym_toeplitz_getitem", lambda: T.sym_toeplitz_getitem(c, i, j).reshape(()), lambda: Ts[i, j], "entry")
    s = rng.randint(1, 3)
    U, V = randn(*batch, n, s), randn(*batch, n, s)

    def dq_ref():
        cc = c.clone().requires_grad_(True)
        return torch.autograd.grad((U * (model.toeplitz_sym(cc) @ V)).sum(), cc)[0]

    chk("sym_toeplitz_derivative_quadratic_form", lambda: T.sym_toeplitz_derivative_quadratic_form(U, V), dq_ref, "mat", tol_=tol * 10)
    if not batch:
        u1, v1 = randn(n), randn(n)

        def dq_ref1():
            cc = c.clone().requires_grad_(True)
            return torch.autograd.grad((u1 * (model.toeplitz_sym(cc) @ v1)).sum(), cc)[0]

        chk("sym_toeplitz_derivative_quadratic_form", lambda: T.sym_toeplitz_derivative_quadratic_form(u1, v1), dq_ref1, "vec", tol_=tol * 10)
    # ---------------- interpolation / sparse
    m, k, N = rng.randint(1, 6), rng.randint(1, 3), rng.randint(1, 6)
    idx = torch.randint(0, N, (*batch, m, k), generator=g)
    val = randn(*batch, m, k)
    variant = "generic"
    if rng.random() < 0.3:
        val[..., 0] = 0
        variant = "zero_values"
    if rng.random() < 0.3 and k > 1:
        idx[..., 1] = idx[..., 0]
        variant = "duplicate_indices"
    W = model.interp_matrix(idx, val, N)
    R = randn(*rb, N, 2)
    R2 = randn(*rb, m, 2)
    chk("left_interp", lambda: I.left_interp(idx, val, R), lambda: W @ R, f"mat:{rbk}:{variant}")
    chk("left_t_interp", lambda: I.left_t_interp(idx, val, R2, N), lambda: W.mT @ R2, f"mat:{rbk}:{variant}")
    if not batch:
        rv, rv2 = randn(N), randn(m)
        chk("left_interp", lambda: I.left_interp(idx, val, rv), lambda: W @ rv, "vec:" + variant)
        chk("left_t_interp", lambda: I.left_t_interp(idx, val, rv2, N), lambda: W.mT @ rv2, "vec:" + variant)
    allzero = rng.random() < 0.08
    val_s = torch.zeros_like(val) if allzero else val
    Ws = model.interp_matrix(idx, val_s, N)
    chk("make_sparse_from_indices_and_values", lambda: S.make_sparse_from_indices_and_values(idx, val_s.clone(), N).to_dense(), lambda: Ws.mT,
        "allzero" if allzero else variant, nontrivial=not allzero)
    sp, exs = compare.attempt(lambda: S.make_sparse_from_indices_and_values(idx, val.clone(), N))
    D2 = randn(*rb, m, 2)
    if exs is None:
        chk("bdsmm", lambda: S.bdsmm(sp, D2), lambda: W.mT @ D2, "mat:" + rbk)
        chk("dsmm", lambda: dsmm(sp, D2), lambda: W.mT @ D2, "mat:" + rbk)

        def dsmm_grad():
            d = D2.clone().requires_grad_(True)
            out = dsmm(sp, d)
            return torch.autograd.grad((out * out.detach().cos()).sum(), d)[0]

        def dsmm_grad_ref():
            d = D2.clone().requires_grad_(True)
            out = W.mT @ d
            return torch.autograd.grad((out * out.detach().cos()).sum(), d)[0]

        chk("dsmm.backward", dsmm_grad, dsmm_grad_ref, "mat:" + rbk, tol_=tol * 10)
    dnm = randn(*batch, 3, 4) * (torch.rand((*batch, 3, 4), generator=g) > 0.5)
    empty = rng.random() < 0.08
    if empty:
        dnm = torch.zeros_like(dnm)
    chk("to_sparse", lambda: S.to_sparse(dnm).to_dense(), lambda: dnm, "empty" if empty else "generic", nontrivial=not empty)
    reps = [rng.choice([1, 1, 2, 3]) for _ in range(dnm.dim())]
    gt1 = any(rp > 1 and sz > 1 for rp, sz in zip(reps, dnm.shape))
    chk("sparse_repeat", lambda: S.sparse_repeat(S.to_sparse(dnm), *reps).to_dense(), lambda: dnm.repeat(*reps),
        "repeat_dim_gt1" if gt1 else "repeat_size1_or_none", tags={"repeat_dim_gt1"} if gt1 else ())
    lead = rng.choice([2, 3])
    chk("sparse_repeat", lambda: S.sparse_repeat(S.to_sparse(dnm.unsqueeze(0)), lead, *[1] * dnm.dim()).to_dense(),
        lambda: dnm.unsqueeze(0).repeat(lead, *[1] * dnm.dim()), "repeat_leading_singleton")
    chk("sparse_repeat", lambda: S.sparse_repeat(S.to_sparse(dnm), lead, *[1] * dnm.dim()).to_dense(),
        lambda: dnm.repeat(lead, *[1] * dnm.dim()), "repeat_new_leading_dim")
    d2 = randn(4, 5) * (torch.rand((4, 5), generator=g) > 0.4)
    if rng.random() < 0.15:
        d2[rng.randrange(4)] = 0
    a = rng.randrange(4)
    s0 = rng.randrange(4)
    s1 = rng.randint(s0 + 1, 4)
    cidx = rng.randrange(5)

    def gi(ix):
        res = S.sparse_getitem(S.to_sparse(d2), ix)
        return res.to_dense() if res.is_sparse else res

    chk("sparse_getitem", lambda: gi((a,)), lambda: d2[a], "int")
    chk("sparse_getitem", lambda: gi((slice(s0, s1),)), lambda: d2[s0:s1], "slice")
    chk("sparse_getitem", lambda: gi((a, slice(1, 4))), lambda: d2[a, 1:4], "int,slice")
    chk("sparse_getitem", lambda: gi((slice(s0, s1), cidx)), lambda: d2[s0:s1, cidx], "slice,int")
    chk("sparse_getitem", lambda: gi((slice(s0, s1), slice(1, 4))), lambda: d2[s0:s1, 1:4], "slice,slice")
    chk("sparse_eye", lambda: S.sparse_eye(n).to_dense(), lambda: torch.eye(n), "eye")
    # ---------------- permutations
    M = randn(*batch, n, n)
    perm = torch.argsort(torch.rand((*batch, n), generator=g), dim=-1)
    kp = rng.randint(1, n)
    pb = perm if rng.random() < 0.7 or not batch else perm[(0,) * len(batch)]
    pk = "batched" if pb.dim() > 1 else "shared"
    chk("apply_permutation", lambda: P.apply_permutation(M, pb, pb), lambda: _pref(M, pb, pb), "full:" + pk)
    chk("apply_permutation", lambda: P.apply_permutation(M, pb[..., :kp], None), lambda: _pref(M, pb[..., :kp], None), "left_partial:" + pk)
    chk("apply_permutation", lambda: P.apply_permutation(M, None, pb[..., :kp]), lambda: _pref(M, None, pb[..., :kp]), "right_partial:" + pk)
    chk("apply_permutation", lambda: P.apply_permutation(DenseLinearOperator(M), pb, pb[..., :kp]), lambda: _pref(M, pb, pb[..., :kp]), "operator:" + pk)
    # rectangular matrices (the library permutes the rows of its n x k pivoted-Cholesky factors this way): row and column permutations of
    # different lengths, each alone and both
    n2 = rng.choice([x for x in (1, 2, 3, 5, 7) if x != n])
    Mr = randn(*batch, n, n2)
    cperm = torch.argsort(torch.rand((*batch, n2), generator=g), dim=-1)
    cb = cperm if pb.dim() > 1 else cperm[(0,) * len(batch)]
    kc = rng.randint(1, n2)
    rk = ("tall" if n > n2 else "fat") + ":" + pk
    chk("apply_permutation", lambda: P.apply_permutation(Mr, pb, None), lambda: _pref(Mr, pb, None), "rect_left:" + rk)
    chk("apply_permutation", lambda: P.apply_permutation(Mr, None, cb), lambda: _pref(Mr, None, cb), "rect_right:" + rk)
    chk("apply_permutation", lambda: P.apply_permutation(Mr, pb[..., :kp], cb[..., :kc]), lambda: _pref(Mr, pb[..., :kp], cb[..., :kc]), "rect_both_partial:" + rk)
    chk("apply_permutation", lambda: P.apply_permutation(Mr, None, cb[..., :kc]), lambda: _pref(Mr, None, cb[..., :kc]), "rect_right_partial:" + rk)
    chk("inverse_permutation", lambda: torch.gather(perm, -1, P.inverse_permutation(perm)).double(),
        lambda: torch.arange(n).expand(*batch, n).double(), "inverse")
    # ---------------- QR / pseudo-inverse
    rr, cc = rng.randint(1, 7), rng.randint(1, 7)
    Mq = randn(*batch, rr, cc)
    shape_kind = "tall" if rr > cc else "square" if rr == cc else "fat"
    neardef = rng.random() < 0.2 and cc >= 2
    if neardef:
        Mq[..., :, -1] = Mq[..., :, 0] * (1 + 1e-9)
        shape_kind += ":nearly_rank_deficient"
    exact_sing = (not neardef) and rng.random() < 0.15
    if exact_sing:
        # EXACT rank deficiency (a zero column / row, the zero matrix, a repeated integer column): R gets an exactly zero diagonal entry,
        # which the stabilisation must replace by +-1e-6 (sign(0) := +1) so that R stays invertible and the pseudo-inverse finite
        how = rng.choice(["zero_col", "zero_matrix", "repeated_int"])
        Mq = Mq.clone()
        if how == "zero_matrix":
            Mq.zero_()
        elif how == "zero_col":
            if rr >= cc:
                Mq[..., :, rng.randrange(cc)] = 0
            else:
                Mq[..., rng.randrange(rr), :] = 0
        else:
            Mq = torch.round(Mq * 3)
            if cc >= 2 and rr >= cc:
                Mq[..., :, -1] = Mq[..., :, 0]
            elif rr >= 2:
                Mq[..., -1, :] = Mq[..., 0, :]
        shape_kind += ":exactly_singular"
        if rr >= cc:
            qr, exq = compare.attempt(lambda: stable_qr(Mq))
            if exq is not None:
                ctx.fail("stable_qr", "exception", cls="stable_qr", path=shape_kind, exc=exq, info={dn})
            else:
                Q, Rm = qr
                dmin = float(Rm.diagonal(dim1=-2, dim2=-1).abs().min())
                if not (torch.isfinite(Q).all() and torch.isfinite(Rm).all()) or dmin < 0.9e-6:
                    ctx.fail("stable_qr", "value", cls="stable_qr", path=shape_kind, info={dn, how}, err=dmin,
                             detail=f"R is singular / non-finite after stabilisation (min |R_ii| = {dmin:.1e}; jitter 1e-6 expected on zero entries)")
                else:
                    ctx.ok("stable_qr", "stabilised_diagonal:" + shape_kind + ":" + dn, True)
                    chk("stable_qr", lambda: Q @ Rm, lambda: Mq, "QR=A:" + shape_kind, tol_=1e-4)
        pin, exq = compare.attempt(lambda: stable_pinverse(Mq))
        if exq is not None:
            ctx.fail("stable_pinverse", "exception", cls="stable_pinverse", path=shape_kind, exc=exq, info={dn})
        elif not torch.isfinite(pin).all():
            ctx.fail("stable_pinverse", "value", cls="stable_pinverse", path=shape_kind, info={dn, how}, detail="non-finite pseudo-inverse of an exactly rank-deficient matrix")
        else:
            ctx.ok("stable_pinverse", "finite:" + shape_kind + ":" + dn, True)
        return
    if rr >= cc:
        qr, exq = compare.attempt(lambda: stable_qr(Mq))
        if exq is not None:
            ctx.fail("stable_qr", "exception", cls="stable_qr", path=shape_kind, exc=exq, info={dn})
        else:
            Q, Rm = qr
            # near rank deficiency the documented stabilisation adds 1e-6 to tiny diagonal entries of R: residual bound only
            chk("stable_qr", lambda: Q @ Rm, lambda: Mq, "QR=A:" + shape_kind, tol_=1e-5 if neardef and dt == torch.float64 else tol * 100)
            chk("stable_qr", lambda: torch.tril(Rm, -1), lambda: torch.zeros_like(Rm), "R_upper:" + shape_kind)
            if not neardef:
                chk("stable_qr", lambda: Q.mT @ Q, lambda: torch.eye(cc, dtype=dt).expand(*batch, cc, cc), "QtQ=I:" + shape_kind, tol_=tol * 100)
    if not neardef:
        # forward error of a pseudo-inverse grows with the condition number (a random matrix is occasionally ill-conditioned by chance)
        sv = torch.linalg.svdvals(Mq.double())
        cond = float((sv[..., 0] / sv[..., -1].clamp_min(1e-300)).max())
        ptol = max(1e-7 if dt == torch.float64 else 1e-2, 50 * cond * float(torch.finfo(dt).eps))
        if ptol > 0.1:
            ctx.stat("pinverse_ill_conditioned_by_chance(not judged)")
        else:
            chk("stable_pinverse", lambda: stable_pinverse(Mq), lambda: torch.linalg.pinv(Mq.double()).to(dt), "pinv:" + shape_kind, tol_=ptol)
    elif dt == torch.float64:
        # near rank deficiency: Moore-Penrose residual identity A A^+ A = A only (f32: the jittered R has
        # condition ~1e6 >= 1/eps, nothing is decidable)
        chk("stable_pinverse", lambda: Mq @ stable_pinverse(Mq) @ Mq, lambda: Mq, "A A+ A=A:" + shape_kind, tol_=1e-5 if dt == torch.float64 else 5e-2)
