"""C19 - incompatible shapes and out-of-range indices raise, never mis-compute."""
import random

import torch

from .. import compare, zoo
from . import common

BUDGET = {"quick": dict(seconds=35, cases=10**9), "thorough": dict(seconds=420, cases=10**9)}
RULE = ("cases: every operator class (nestings to depth 2, batch shapes) x public operation taking a second operand or an index "
        "{matmul, @, rmatmul (X @ op), solve, inv_quad, inv_quad_logdet, + / - / * with tensors and operators, add_diagonal, cat, expand, "
        "__getitem__ with int / slice / tensor / list indices} x a *bad* second operand: wrong inner dimension, size-1 inner dimension, "
        "extra / missing dimensions, non-broadcastable batch shapes, index >= size or < -size (int and tensor entries), square-only "
        "operations on rectangular operators; operator @ operator with an inner-dimension mismatch (same class, dense, unbatched, single-block "
        "and block-dimension-as-batch operands of block operators). Only inputs that torch REJECTS for the densified operator are judged (the reference call is "
        "executed, not assumed). oracle: the library raises (at the call or, for lazy results, at evaluation); a returned value is a "
        "no-raise violation. debug setting on (thorough: also off - the documented opt-out from the safety checks - where acceptances are counted, not judged). distinct key = (root class, operation, badness) [round 4: solve / inv_quad / inv_quad_logdet / sqrt_inv_matmul with bad operands also above the Cholesky threshold (max_cholesky_size(0): CG / MINRES call _matmul without the public checks)] [round 5: expand requests of size 1 / -1 (also next to a new leading dimension) at a non-singleton batch dimension, and fewer sizes than dimensions]")
ASSUMPTIONS = ["torch's own accept / reject verdict on the dense operand is the specification", "a lazy result that raises on to_dense() counts as raising"]
REQUIRED_STATS = ("judged",)

OPS = ["matmul", "rmatmul", "solve", "inv_quad", "inv_quad_logdet", "sqrt_inv_matmul", "add_tensor", "add_op", "sub_tensor", "mul_tensor", "mul_op",
       "add_diagonal", "cat", "expand", "getitem_int", "getitem_tensor", "getitem_list", "square_only", "matmul_op", "matmul_op"]


def gen_cases(ctx):
    rng = ctx.rng
    classes = list(zoo.ALL_CLASSES)
    i = ctx.shard
    while True:
        root = classes[i % len(classes)]
        i += 1
        op = rng.choice(OPS)
        n = rng.choice([2, 3, 4, 5, 6] if op == "matmul_op" else [2, 3, 4, 5])
        kind = rng.choice(["pd", "psd", "square", "rect", "sym"])
        if op in ("solve", "inv_quad", "inv_quad_logdet", "add_diagonal", "sqrt_inv_matmul"):
            kind = "pd"
        if op == "square_only":
            kind = "rect"
        m = n if kind != "rect" else rng.choice([x for x in (1, 2, 3, 4, 6) if x != n])
        batch = rng.choice([[], [], [2], [3, 2]])
        spec = zoo.gen_spec(rng, kind, n, m, batch, depth=rng.choice([1, 1, 2]), dtype=rng.choice(["f64", "f32"]), root=root)
        if spec is None:
            continue
        # route: solves / quadratic forms also above the Cholesky threshold (CG / Lanczos paths call _matmul without the public checks)
        route = rng.choice([None, "cg"]) if op in ("solve", "inv_quad", "inv_quad_logdet", "sqrt_inv_matmul") else None
        yield dict(spec=spec, op=op, rseed=rng.randrange(1 << 30), debug=True if ctx.tier == "quick" else rng.random() < 0.8, route=route)


def _bad_operand(rng, op, dense, g, spec=None, opobj=None):
    """-> list of (badness, lib_call(opobj), dense_call()) candidates"""
    from linear_operator import operators as O

    dt = dense.dtype
    batch = list(dense.shape[:-2])
    n, m = dense.shape[-2:]

    def randn(*shape):
        return torch.randn(tuple(shape), generator=g, dtype=torch.float64).to(dt)

    out = []
    if op in ("matmul", "solve", "inv_quad", "inv_quad_logdet", "sqrt_inv_matmul"):
        rows = m if op == "matmul" else n
        shapes = [("inner+1", [rows + 1, 2]), ("inner=1", [1, 2]), ("inner+1_vec", [rows + 1]), ("batch_mismatch", [5] + [rows, 2] if not batch else [batch[-1] + 1, rows, 2]),
                  ("missing_dims_0d", [])]
        for bad, shp in shapes:
            if bad == "inner=1" and rows == 1:
                continue
            t = randn(*shp) if shp else torch.tensor(1.5, dtype=dt)
            if bad == "batch_mismatch" and not batch:
                continue
            if op == "matmul":
                out.append((bad, (lambda o, t=t: o.matmul(t)), (lambda t=t: torch.matmul(dense, t))))
                out.append((bad + "/@", (lambda o, t=t: o @ t), (lambda t=t: torch.matmul(dense, t))))
            elif op == "solve":
                out.append((bad, (lambda o, t=t: o.solve(t)), (lambda t=t: torch.linalg.solve(dense, t) if t.dim() != 1 or not batch else torch.linalg.solve(dense, t.unsqueeze(-1)))))
            elif op == "sqrt_inv_matmul":
                # A^{-1/2} R (contour-integral quadrature: MINRES / Lanczos call _matmul directly)
                out.append((bad, (lambda o, t=t: o.sqrt_inv_matmul(t)), (lambda t=t: torch.linalg.solve(dense, t) if t.dim() != 1 or not batch else torch.linalg.solve(dense, t.unsqueeze(-1)))))
            elif op == "inv_quad":
                out.append((bad, (lambda o, t=t: o.inv_quad(t)), (lambda t=t: (t * torch.linalg.solve(dense, t)).sum())))
            else:
                out.append((bad, (lambda o, t=t: o.inv_quad_logdet(t, logdet=True)), (lambda t=t: (t * torch.linalg.solve(dense, t)).sum())))
    elif op == "rmatmul":
        for bad, shp in [("inner+1", [2, n + 1]), ("inner=1", [2, 1]), ("inner+1_vec", [n + 1])]:
            if bad == "inner=1" and n == 1:
                continue
            t = randn(*shp)
            out.append((bad, (lambda o, t=t: t @ o), (lambda t=t: torch.matmul(t, dense))))
            out.append((bad + "/rmatmul", (lambda o, t=t: o.rmatmul(t)), (lambda t=t: torch.matmul(t, dense))))
    elif op in ("add_tensor", "sub_tensor", "mul_tensor", "add_op", "mul_op"):
        shapes = [("rows+1", batch + [n + 1, m]), ("cols+1", batch + [n, m + 1]), ("both+1", [n + 1, m + 1]),
                  ("batch_mismatch", ([batch[-1] + 1] if batch else [3]) + [n, m])]
        for bad, shp in shapes:
            if bad == "batch_mismatch" and not batch:
                continue
            t = randn(*shp)
            if op == "add_tensor":
                out.append((bad, (lambda o, t=t: o + t), (lambda t=t: dense + t)))
                out.append((bad + "/radd", (lambda o, t=t: t + o), (lambda t=t: t + dense)))
            elif op == "sub_tensor":
                out.append((bad, (lambda o, t=t: o - t), (lambda t=t: dense - t)))
            elif op == "mul_tensor":
                out.append((bad, (lambda o, t=t: o * t), (lambda t=t: dense * t)))
            elif op == "add_op":
                out.append((bad, (lambda o, t=t: o + O.DenseLinearOperator(t)), (lambda t=t: dense + t)))
            else:
                out.append((bad, (lambda o, t=t: o * O.DenseLinearOperator(t)), (lambda t=t: dense * t)))
    elif op == "add_diagonal":
        for bad, shp in [("len+1", [n + 1]), ("len-1", [max(n - 1, 2)] if n - 1 >= 2 else [n + 2]), ("batch_mismatch", ([batch[-1] + 1] if batch else [3]) + [n])]:
            if bad == "batch_mismatch" and not batch:
                continue
            d = randn(*shp).abs()
            out.append((bad, (lambda o, d=d: o.add_diagonal(d)), (lambda d=d: dense + torch.diag_embed(d))))
    elif op == "cat":
        t = randn(*batch, n + 1, m + 1)
        for dim in (-2, -1):
            out.append((f"mismatch_dim{dim}", (lambda o, t=t, dim=dim: O.cat([o, O.DenseLinearOperator(t)], dim=dim)), (lambda t=t, dim=dim: torch.cat([dense, t], dim=dim))))
    elif op == "expand":
        if batch:
            sizes = [batch[0] + 1] + batch[1:] + [n, m]
            out.append(("non_singleton", (lambda o: o.expand(*sizes)), (lambda: dense.expand(*sizes))))
            # expand goes one way only: asking for size 1 (or -1 next to a new leading dimension of the wrong size) where the operator
            # already has a non-singleton batch dimension is refused by torch
            for pos, bsz in enumerate(batch):
                if bsz > 1:
                    s1 = batch[:pos] + [1] + batch[pos + 1:] + [n, m]
                    out.append((f"shrink_to_one@{pos}", (lambda o, s1=s1: o.expand(*s1)), (lambda s1=s1: dense.expand(*s1))))
                    s1m = batch[:pos] + [1] + batch[pos + 1:] + [-1, -1]
                    out.append((f"shrink_to_one@{pos}/-1", (lambda o, s1m=s1m: o.expand(*s1m)), (lambda s1m=s1m: dense.expand(*s1m))))
                    s2 = [2] + batch[:pos] + [1] + batch[pos + 1:] + [n, m]
                    out.append((f"shrink_to_one@{pos}/new_leading", (lambda o, s2=s2: o.expand(*s2)), (lambda s2=s2: dense.expand(*s2))))
                    break
            fewer = batch[1:] + [n, m]
            out.append(("fewer_dims", (lambda o: o.expand(*fewer)), (lambda: dense.expand(*fewer))))
        sizes2 = batch + [n + 1, m]
        out.append(("matrix_dim", (lambda o: o.expand(*sizes2)), (lambda: dense.expand(*sizes2))))
    elif op.startswith("getitem"):
        shape = list(dense.shape)
        pos = rng.randrange(len(shape))
        size = shape[pos]
        where = "row" if pos == len(shape) - 2 else "col" if pos == len(shape) - 1 else "batch"
        for bad, val in [("idx==size", size), ("idx>size", size + 3), ("idx<-size", -size - 1)]:
            if op == "getitem_int":
                comp = val
            elif op == "getitem_tensor":
                comp = torch.tensor([0, val])
            else:
                comp = [0, val]
            idx = tuple([slice(None)] * pos + [comp])
            out.append((f"{bad}@{where}", (lambda o, idx=idx: o[idx]), (lambda idx=idx: dense[idx])))
            if op == "getitem_tensor" and len(shape) - pos >= 2:
                # paired tensor indices, one entry out of range
                other = torch.tensor([0, 0])
                idx2 = tuple([slice(None)] * pos + [comp, other])
                out.append((f"{bad}@{where}+pair", (lambda o, idx=idx2: o[idx]), (lambda idx=idx2: dense[idx])))
    elif op == "matmul_op" and spec is not None:
        # operator @ operator with an inner-dimension mismatch; the second operand of the same class (structured fast paths) or dense
        for n2 in [x for x in (1, 2, 3, 4, 6, 8) if x != m][:4]:
            for root in (spec["cls"], "Dense"):
                for b2 in ([batch] if not batch else [batch, []]):
                    sp2 = zoo.gen_spec(rng, "square" if root != spec["cls"] else rng.choice(["square", "pd"]), n2, n2, b2, depth=1, dtype=spec["dtype"], root=root)
                    if sp2 is None:
                        continue
                    try:
                        o2 = zoo.build(sp2)
                    except Exception:  # noqa: BLE001
                        continue
                    lab = ("same_class" if root == spec["cls"] else "dense") + ("" if b2 == batch else "_unbatched")
                    out.append((f"inner_mismatch:{lab}", (lambda o, o2=o2: o @ o2.op), (lambda o2=o2: dense @ o2.dense)))
                    out.append((f"inner_mismatch:{lab}/torch.matmul", (lambda o, o2=o2: torch.matmul(o, o2.op)), (lambda o2=o2: dense @ o2.dense)))
        # block operators: a second operand with the same block size but a single block (its block dimension has size 1 and would
        # broadcast), and one whose batch dimension lines up with the block dimension
        if opobj is not None and type(opobj).__name__ in ("BlockDiagLinearOperator", "BlockInterleavedLinearOperator") and m == n:
            bs = opobj.base_linear_op.shape[-1]
            nb = opobj.base_linear_op.shape[-3]
            if nb > 1:
                for lab, shp in (("one_block", [*batch, 1, bs, bs]), ("block_dim_as_batch", [nb, 1, bs, bs])):
                    t = randn(*shp)
                    o2 = type(opobj)(O.DenseLinearOperator(t))
                    d2 = o2.to_dense()
                    out.append((f"inner_mismatch:{lab}", (lambda o, o2=o2: o @ o2), (lambda d2=d2: dense @ d2)))
    elif op == "square_only":
        out.append(("rect:solve", (lambda o: o.solve(randn(n, 1))), (lambda: torch.linalg.solve(dense, randn(*batch, n, 1)))))
        out.append(("rect:logdet", (lambda o: o.logdet()), (lambda: torch.logdet(dense))))
        out.append(("rect:cholesky", (lambda o: o.cholesky()), (lambda: torch.linalg.cholesky(dense))))
        out.append(("rect:inv_quad", (lambda o: o.inv_quad(randn(*batch, n, 1))), (lambda: torch.linalg.solve(dense, randn(*batch, n, 1)))))
        out.append(("rect:add_diagonal", (lambda o: o.add_diagonal(randn(n).abs())), (lambda: dense + torch.diag_embed(randn(n)))))
        out.append(("rect:eigh", (lambda o: o.eigh()), (lambda: torch.linalg.eigh(dense))))
        out.append(("rect:root_decomposition", (lambda o: o.root_decomposition()), (lambda: torch.linalg.cholesky(dense))))
        out.append(("rect:add_jitter", (lambda o: o.add_jitter(0.1)), (lambda: dense + torch.eye(n, dtype=dt))))
    return out


def run_case(case, ctx):
    from linear_operator import settings

    spec = case["spec"]
    b = common.try_build(spec, ctx)
    if b is None:
        return
    rng = random.Random(case["rseed"])
    g = torch.Generator().manual_seed(case["rseed"])
    op = case["op"]
    path = zoo.class_path(spec, 2)
    tags0 = common.spec_tags(spec)
    info = common.spec_info(spec) | ({"debug_off"} if not case["debug"] else set())
    import contextlib

    st = contextlib.ExitStack()
    if case.get("route") == "cg":
        st.enter_context(settings.max_cholesky_size(0))
        info = info | {"route:cg"}
    with st, settings.debug(case["debug"]):
        for bad, libcall, densecall in _bad_operand(rng, op, b.dense, g, spec, b.op):
            _, exd = compare.attempt(densecall)
            if exd is None:
                ctx.stat("torch_accepts(not judged)")
                continue
            ctx.stat("judged")
            res, ex = compare.attempt(libcall, b.op)
            key = f"{spec['cls']}|{op}|{bad}" + ("|cg" if case.get("route") == "cg" else "")
            if ex is not None:
                ctx.ok(op, key, True, sample=dict(spec=zoo.class_path(spec, 3), op=op, badness=bad, library=f"{ex.type}: {ex.msg[:60]}", torch=exd.msg[:60]))
                continue
            # lazy result: force evaluation
            late = None
            if res is not None and not torch.is_tensor(res) and not isinstance(res, tuple) and hasattr(res, "to_dense"):
                _, late = compare.attempt(res.to_dense)
            if late is not None:
                ctx.stat("raised_only_at_evaluation")
                ctx.ok(op, key + "|late", True)
                continue
            if not case["debug"]:
                # settings.debug(False) is the documented opt-out from the library's safety checks: what is accepted there is counted, not judged
                ctx.stat("accepted_with_debug_off(not judged):" + op)
                continue
            shape = tuple(res.shape) if hasattr(res, "shape") else type(res).__name__
            # is the silent acceptance specific to this class?  same call on a dense operator of the same value
            from linear_operator.operators import DenseLinearOperator

            res2, ex2 = compare.attempt(libcall, DenseLinearOperator(b.dense))
            late2 = None
            if ex2 is None and res2 is not None and not torch.is_tensor(res2) and not isinstance(res2, tuple) and hasattr(res2, "to_dense"):
                _, late2 = compare.attempt(res2.to_dense)
            generic = ex2 is None and late2 is None
            ctx.fail(op, "no-raise", cls="LinearOperator" if generic else spec["cls"], path="any" if generic else path,
                     tags={bad.split("/")[0]} | (set() if generic else tags0), info=info | {"variant:" + bad},
                     detail=f"returned {shape}; torch: {exd.msg[:80]}")
