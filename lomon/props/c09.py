"""C09 - Lanczos returns an orthonormal basis and the projected tridiagonal."""
import math
import random
import warnings

import torch

from .. import compare, zoo
from ..monitors.hooks import Recorder

BUDGET = {"quick": dict(seconds=30, cases=10**9), "thorough": dict(seconds=480, cases=10**9)}
RULE = ("cases: lanczos_tridiag called directly on symmetric PSD matrices {full rank with prescribed spectrum, rank deficient, repeated "
        "eigenvalues, multiples of the identity}, n 1..16 quick / ..64 thorough, batch shapes (members with equal and with different Krylov "
        "dimension), supplied start vectors (single and multiple) and random ones (seeded), every max_iter in 1..n+2, f32/f64; consumers "
        "root_decomposition / root_inv_decomposition(initial_vectors, test_vectors) / diagonalization with method='lanczos'. oracle: "
        "Q^T Q = I; T symmetric tridiagonal; Q^T A Q = T; A Q - Q T zero outside its last column; Q T Q^T = A on the Krylov space when the "
        "budget reaches its dimension; consumers: root R R^T equals the orthogonal compression of A (A^-1 on that subspace) onto range(R) "
        "and A itself at full Krylov rank; per member / probe of a batch: wherever the BUDGET reaches that member's Krylov dimension its "
        "residual A Q - Q T vanishes (a run cut short because another member broke down does not satisfy this); "
        " the lanczos.* hook events give the number of iterations kept and enforce the step bound. "
        "distinct key = (clause, matrix family, start-vector kind, budget relative to n, dtype, batch rank) [added: lanczos_tridiag_to_diag driven directly with tridiagonal matrices that have negative eigenvalues (V diag(e) V^T = positive part of T); jitter amount: at full Krylov rank R R^T - A = tridiagonal_jitter * min diag(T) I with T recomputed from the recorded start vector] [round 4: the root that a Lanczos inverse-root run leaves in the operator's cache is judged too (shape, compression identity); orthogonality tolerance max(base, 20 eps ||A|| / min beta_j) when the smallest residual norm is above the library's 1e-6 breakdown threshold] [round 6: well-conditioned full-rank consumer cases also run at overall matrix scales 1e-5 / 1e-4 / 1e2]")
ASSUMPTIONS = ["float64 dense products are the reference", "tolerances scale with ||A||: 1e-8 (f64) / 2e-3 (f32), calibrated on the unchanged tree (1e-15 / 7e-7)"]
REQUIRED_STATS = ("runs",)


def gen_cases(ctx):
    rng = ctx.rng
    sizes = [1, 2, 3, 4, 6, 8, 12, 16] if ctx.tier == "quick" else [1, 2, 3, 4, 8, 16, 32, 64]
    while True:
        n = rng.choice(sizes)
        if rng.random() < 0.08:
            # the post-processing of T on its own: tridiagonal matrices WITH negative eigenvalues (what a rank-deficient operator plus
            # rounding produces), where the masking of negative Ritz values is not a no-op
            yield dict(mode="t2d", k=rng.choice([1, 2, 3, 5, 8, 33]), lead=rng.choice([[], [2], [3, 2]]), dtype=rng.choice(["f64", "f32"]),
                       shift=rng.choice([-1.0, 0.0, 0.5, 3.0]), seed=rng.randrange(1 << 30))
            continue
        yield dict(n=n, batch=rng.choice([[], [], [2], [2, 2]]), dtype=rng.choice(["f64", "f64", "f32"]),
                   family=rng.choice(["full", "full", "rankdef", "repeated", "identity_multiple", "mixed_batch"]),
                   kappa=rng.choice([2.0, 20.0, 1e3]), init=rng.choice(["supplied1", "supplied1", "supplied3", "random"]),
                   max_iter=rng.randint(1, n + 2), seed=rng.randrange(1 << 30), consumer=rng.choice([None, None, "root", "root_inv", "diag"]),
                   # overall magnitude of the matrix (the consumers' jitter is relative to T; judged for well separated full-rank spectra)
                   matscale=rng.choice([1.0, 1.0, 1.0, 1e-4, 1e-5, 1e2]))


def make_matrix(case, g):
    n, batch, fam = case["n"], case["batch"], case["family"]
    if fam == "full":
        A = zoo.pd_matrix(g, n, batch, kappa=case["kappa"], family="uniform")
    elif fam == "rankdef":
        r = max(1, n // 2)
        F = torch.randn(*batch, n, r, generator=g, dtype=torch.float64)
        A = F @ F.mT
    elif fam == "repeated":
        q, _ = torch.linalg.qr(torch.randn(*batch, n, n, generator=g, dtype=torch.float64))
        lam = torch.ones(n, dtype=torch.float64)
        lam[: max(1, n // 2)] = 3.0
        A = (q * lam) @ q.mT
    elif fam == "identity_multiple":
        A = 2.5 * torch.eye(n, dtype=torch.float64).expand(*batch, n, n).clone()
    else:  # mixed batch: one generic member, one multiple of the identity
        A = zoo.pd_matrix(g, n, batch, kappa=case["kappa"], family="uniform")
        if batch:
            A[(0,) * len(batch)] = 1.5 * torch.eye(n, dtype=torch.float64)
    return (A + A.mT) / 2


def krylov_dim(A, v, tol=1e-7):
    """dimension of span{v, Av, A^2 v, ...} per (flattened) batch member: float64 Arnoldi with full double
    re-orthogonalisation; a new direction counts when its norm exceeds tol * ||A||"""
    n = A.shape[-1]
    Af = A.reshape(-1, n, n)
    vf = v.expand(*A.shape[:-2], n, 1).reshape(-1, n)
    dims = []
    for a, x in zip(Af, vf):
        sc = float(torch.linalg.matrix_norm(a, ord=2)) + 1e-300
        q = [x / x.norm()]
        while len(q) < n:
            w = a @ q[-1]
            for _ in range(2):
                for u in q:
                    w = w - (u @ w) * u
            if float(w.norm()) <= tol * sc:
                break
            q.append(w / w.norm())
        dims.append(len(q))
    return torch.tensor(dims).reshape(A.shape[:-2]) if A.dim() > 2 else torch.tensor(dims[0])


def run_t2d(case, ctx):
    from linear_operator.utils.lanczos import lanczos_tridiag_to_diag

    dt = zoo.DT[case["dtype"]]
    g = torch.Generator().manual_seed(case["seed"])
    k, lead = case["k"], case["lead"]
    d = torch.randn(*lead, k, generator=g, dtype=torch.float64) + case["shift"]
    e = torch.randn(*lead, max(k - 1, 0), generator=g, dtype=torch.float64)
    T = torch.diag_embed(d)
    if k > 1:
        T = T + torch.diag_embed(e, offset=1) + torch.diag_embed(e, offset=-1)
    T = T.to(dt)
    T64 = T.to(torch.float64)
    kw = dict(cls="lanczos_tridiag_to_diag", path="t2d", tags={"t2d"}, info={case["dtype"], f"k{k}", f"lead{len(lead)}"})
    ctx.stat("runs")
    out, ex = compare.attempt(lambda: lanczos_tridiag_to_diag(T.clone()))
    if ex is not None:
        ctx.fail("tridiag_to_diag", "exception", exc=ex, **kw)
        return
    ev, V = out
    if tuple(ev.shape) != (*lead, k) or tuple(V.shape) != (*lead, k, k):
        ctx.fail("tridiag_to_diag_shapes", "shape", detail=f"evals {tuple(ev.shape)} evecs {tuple(V.shape)} for T {tuple(T.shape)}", **kw)
        return
    w, U = torch.linalg.eigh(T64)
    sc = float(w.abs().max()) + 1e-300
    tol = 1e-9 if dt == torch.float64 else 2e-3
    # eigenvalues that are negative beyond rounding are masked: value 1, eigenvector column zero; the others reproduce the positive part
    clear = w.abs() > 1e3 * tol * sc
    pos = (U * (w.clamp_min(0)).unsqueeze(-2)) @ U.mT
    e64, V64 = ev.to(torch.float64), V.to(torch.float64)
    rec = (V64 * torch.where(e64 == 1, torch.zeros_like(e64), e64).unsqueeze(-2)) @ V64.mT  # masked columns are zero anyway
    rec_all = (V64 * e64.unsqueeze(-2)) @ V64.mT
    nneg = int(((w < 0) & clear).sum())
    key = f"k{k}|{case['dtype']}|lead{len(lead)}|neg{min(nneg, 2)}"
    err = float((rec_all - pos).abs().max()) / sc
    ambiguous = bool((~clear).any())
    if not bool((e64 >= 0).all()):
        ctx.fail("tridiag_to_diag_eigenvalues_nonnegative", "value", detail="a negative eigenvalue was returned", **kw)
    elif not ambiguous and not err <= 10 * tol:
        ctx.fail("tridiag_to_diag_positive_part", "value", err=err, detail=f"V diag(e) V^T differs from the positive part of T by {err:.2e} ({nneg} negative eigenvalues, k={k})", **kw)
    else:
        ctx.ok("tridiag_to_diag_positive_part", key, k >= 2 and nneg >= 1, sample=dict(k=k, negative_eigenvalues=nneg, err=err))


def run_case(case, ctx):
    if case.get("mode") == "t2d":
        return run_t2d(case, ctx)
    from linear_operator.operators import DenseLinearOperator
    from linear_operator.utils.lanczos import lanczos_tridiag

    dt = zoo.DT[case["dtype"]]
    g = torch.Generator().manual_seed(case["seed"])
    n, batch = case["n"], case["batch"]
    A64 = make_matrix(case, g)
    ms = case.get("matscale", 1.0) if (case.get("consumer") and case["family"] == "full" and case["kappa"] <= 20.0) else 1.0
    A64 = A64 * ms
    A = A64.to(dt)
    A64 = A.to(torch.float64)
    scale = float(torch.linalg.matrix_norm(A64, ord=2).max()) + 1e-300
    init = None
    ninit = 1
    if case["init"].startswith("supplied"):
        ninit = 1 if case["init"] == "supplied1" else 3
        init = torch.randn(*batch, n, ninit, generator=g, dtype=torch.float64).to(dt)
    mixed = case["family"] == "mixed_batch" and bool(batch)
    fam = case["family"]
    brel = "lt_n" if case["max_iter"] < n else ("eq_n" if case["max_iter"] == n else "gt_n")
    kb = f"{fam}|{case['init']}|{brel}|{case['dtype']}|b{len(batch)}"
    tags = {"family:" + fam} | ({"mixed_krylov_dims"} if mixed else set())
    info = {case["dtype"], f"n{n}", f"max_iter{case['max_iter']}", case["init"]} | ({"batched"} if batch else set()) | ({f"matscale{ms:g}"} if ms != 1.0 else set())
    kw = dict(cls="lanczos_tridiag", path=fam, tags=tags, info=info)
    tol = (1e-8 if dt == torch.float64 else 1e-2)
    ctx.stat("runs")
    if case["consumer"] is None:
        torch.manual_seed(case["seed"])
        with Recorder(keep=("lanczos",), clone=True) as rec:
            out, ex = compare.attempt(lambda: lanczos_tridiag(A.matmul, case["max_iter"], dtype=dt, device=A.device, matrix_shape=A.shape[-2:],
                                                              batch_shape=torch.Size(batch), init_vecs=init))
        if ex is not None:
            if ex.type == "StepBoundExceeded":
                ctx.fail("step_bound", "value", detail=ex.msg, **kw)
            else:
                ctx.fail("lanczos_tridiag", "exception", exc=ex, **kw)
            return
        Q, T = out
        end = rec.of("lanczos.end")
        v0 = end[0]["init_vecs"].to(torch.float64) if end else (init.to(torch.float64) if init is not None else None)
        kd = None
        if v0 is not None:
            kd = torch.stack([krylov_dim(A64, v0[..., i : i + 1]) for i in range(ninit)])
            if bool((kd < T.shape[-1]).any()):
                # the library kept more vectors than the Krylov space of some member / probe has dimensions
                tags.add("krylov_exhausted_before_budget")
        if not (torch.isfinite(Q).all() and torch.isfinite(T).all()):
            ctx.fail("finite", "value", detail="non-finite entries in Q or T", **kw)
            return
        Q64, T64 = Q.to(torch.float64), T.to(torch.float64)
        if ninit == 1:
            Q64, T64 = Q64.unsqueeze(0), T64.unsqueeze(0)
        k = T64.shape[-1]
        if tuple(Q64.shape) != (ninit, *batch, n, k) or tuple(T64.shape) != (ninit, *batch, k, k) or k > min(case["max_iter"], n):
            ctx.fail("shapes", "shape", detail=f"Q {tuple(Q.shape)} T {tuple(T.shape)} for n={n} max_iter={case['max_iter']} init={ninit}", **kw)
            return
        I = torch.eye(k, dtype=torch.float64)
        checks = []
        # a new basis vector is the normalised residual: where the residual norm beta_j is small next to ||A|| (but above the library's
        # absolute 1e-6 breakdown threshold, so the run legitimately continues) its direction carries rounding noise of relative size
        # eps ||A|| / beta_j, which is the orthogonality attainable without full re-orthogonalisation in that dtype
        otol = max(tol, 1e-2 if dt == torch.float32 else 1e-8)
        if k > 1:
            bmin = float(T64.diagonal(offset=-1, dim1=-2, dim2=-1).abs().min())
            if bmin > 1e-6:
                otol = max(otol, 20 * float(torch.finfo(dt).eps) * scale / bmin)
        checks.append(("orthonormal_basis", float((Q64.mT @ Q64 - I).abs().max()), otol))
        tri = float(torch.triu(T64, 2).abs().max()) if k > 2 else 0.0
        checks.append(("tridiagonal_symmetric", max(tri, float((T64 - T64.mT).abs().max())) / scale, 1e-12))
        AQ = A64.unsqueeze(0) @ Q64
        checks.append(("projection_QtAQ_equals_T", float((Q64.mT @ AQ - T64).abs().max()) / scale, tol * 10))
        Rm = AQ - Q64 @ T64
        if k > 1:
            checks.append(("residual_only_in_last_column", float(Rm[..., :, :-1].abs().max()) / scale, tol * 10))
        # first basis vector is the normalised start vector
        if v0 is not None:
            q0 = v0 / v0.norm(dim=-2, keepdim=True)
            q0 = q0.permute(-1, *range(q0.dim() - 2), -2) if True else q0
            checks.append(("first_vector_is_start_vector", float((Q64[..., :, 0] - q0).abs().max()), tol * 10))
            # budget reaches the Krylov dimension -> Q T Q^T = A on the space (A q0 reproduced)
            if bool((kd <= k).all()):
                checks.append(("invariant_subspace_at_full_krylov_dim", float(Rm.abs().max()) / scale, max(tol * 100, 1e-5)))
            else:
                # per member / probe: wherever the *budget* reaches that member's Krylov dimension, Q T Q^T must equal A on its space,
                # i.e. its residual vanishes - a run cut short because ANOTHER member or probe broke down does not satisfy this
                reach = kd <= min(case["max_iter"], n)  # (ninit, *batch)
                if bool(reach.any()) and not bool((kd < k).any()):
                    rm = Rm.abs().amax(dim=(-2, -1))  # (ninit, *batch)
                    checks.append(("invariant_subspace_where_budget_reaches_krylov_dim", float(rm[reach].max()) / scale, max(tol * 100, 1e-5)))
        okall = True
        for name, err, t in checks:
            if not err <= t:
                ctx.fail(name, "value", err=err, detail=f"err {err:.2e} tol {t:.1e} (n={n}, k={k}, max_iter={case['max_iter']})", **kw)
                okall = False
            else:
                ctx.ok(name, kb, n >= 2)
        if okall:
            ctx.ok("lanczos_all", kb, n >= 2, sample=dict(n=n, batch=batch, family=fam, init=case["init"], max_iter=case["max_iter"], kept=k, dtype=case["dtype"]))
        return
    # ---------------- consumers
    if dt != torch.float64:
        return
    from linear_operator import settings

    op = DenseLinearOperator(A)
    cons = case["consumer"]
    torch.manual_seed(case["seed"])
    ev = torch.linalg.eigvalsh(A64)
    pd = float(ev[..., 0].min()) > 1e-6 * scale
    kap = float((ev[..., -1] / ev[..., 0].clamp_min(1e-300)).max()) if pd else float("inf")
    with settings.max_root_decomposition_size(case["max_iter"]), Recorder(keep=("lanczos",), clone=True) as crec, warnings.catch_warnings():
        warnings.simplefilter("ignore")
        if cons == "root":
            res, ex = compare.attempt(lambda: op.root_decomposition(method="lanczos").root.to_dense())
        elif cons == "root_inv":
            iv = init
            res, ex = compare.attempt(lambda: op.root_inv_decomposition(initial_vectors=iv, test_vectors=iv, method="lanczos").root.to_dense())
            # the same run leaves the Lanczos ROOT of the operator in its cache (served to later root_decomposition() / sampling calls)
            side = None
            if ex is None and any((k[0] if isinstance(k, tuple) else k) == "root_decomposition" for k in getattr(op, "_memoize_cache", {})):
                side, exs = compare.attempt(lambda: op.root_decomposition().root.to_dense())
                if exs is not None:
                    ctx.fail("consumer.root_inv_side_root", "exception", exc=exs, **kw)
                    side = None
        else:
            res, ex = compare.attempt(lambda: tuple(x.to_dense() if hasattr(x, "to_dense") else x for x in op.diagonalization(method="lanczos")))
    oname = "consumer." + cons
    if fam in ("rankdef", "repeated", "identity_multiple", "mixed_batch"):
        tags.add("krylov_exhausted_before_budget_possible")
    if ex is not None:
        if compare.explicit_unsupported(ex):
            return
        ctx.fail(oname, "exception", exc=ex, **kw)
        return
    if cons == "root_inv" and side is not None and n >= 2:
        ctx.stat("side_effect_roots_checked")
        if tuple(side.shape[:-1]) != (*batch, n):
            ctx.fail("consumer.root_inv_side_root", "shape", detail=f"cached root has shape {tuple(side.shape)} for an operator of shape {tuple(A.shape)}", **kw)
        elif not torch.isfinite(side).all():
            ctx.fail("consumer.root_inv_side_root", "value", detail="non-finite cached root", **kw)
        else:
            Us, Ss, _ = torch.linalg.svd(side.to(torch.float64), full_matrices=False)
            ks = (Ss > 1e-7 * Ss[..., :1].clamp_min(1e-300)).to(torch.float64)
            Ps = (Us * ks.unsqueeze(-2)) @ Us.mT
            es = float((side.to(torch.float64) @ side.to(torch.float64).mT - Ps @ A64 @ Ps).abs().max()) / scale
            if not es <= 5e-3:
                ctx.fail("consumer.root_inv_side_root", "value", err=es, detail=f"the root cached by the inverse-root run differs from the compression of A onto its range: err {es:.2e}", **kw)
            else:
                ctx.ok("consumer.root_inv_side_root", kb, True)
    if cons == "root_inv" and not (pd and kap <= 100):
        ctx.stat("root_inv_on_singular_or_ill_conditioned(not judged)")
        return
    if n == 1:
        ctx.ok(oname, None, False)
        return
    if cons == "diag":
        w, Qd = res
        G = (Qd * w.unsqueeze(-2)) @ Qd.mT
        R = Qd
    else:
        R = res
        G = R @ R.mT
    if not torch.isfinite(G).all():
        ctx.fail(oname, "value", detail="non-finite result", **kw)
        return
    U, S, _ = torch.linalg.svd(R.to(torch.float64), full_matrices=False)
    keep = (S > 1e-7 * S[..., :1].clamp_min(1e-300)).to(torch.float64)
    Pm = (U * keep.unsqueeze(-2)) @ U.mT
    if cons == "root_inv":
        target = torch.linalg.pinv(Pm @ A64 @ Pm, hermitian=True, rtol=1e-9)
        sc = 1.0 / float(ev[..., 0].min())
        tl = 5e-3 * kap
    else:
        target = Pm @ A64 @ Pm
        sc = scale
        tl = 5e-3
    # the jitter itself: at full Krylov rank the Lanczos root is a root of A + delta I with delta = tridiagonal_jitter * min diag(T),
    # T being determined by A and the (recorded) start vector
    ends = crec.of("lanczos.end")
    if cons == "root" and fam == "full" and case["max_iter"] >= n and n >= 3 and kap <= 1e3 and len(ends) == 1 and ends[0].get("init_vecs") is not None \
            and bool(keep.sum(-1).min() == n):
        v0 = ends[0]["init_vecs"].to(torch.float64)
        if v0.shape[-1] == 1 and tuple(v0.shape[:-2]) == tuple(batch):
            Af, vf = A64.reshape(-1, n, n), v0.reshape(-1, n, 1)
            E = (G.to(torch.float64) - A64).reshape(-1, n, n)
            worst = None
            for i_ in range(Af.shape[0]):
                q = [vf[i_, :, 0] / vf[i_, :, 0].norm()]
                while len(q) < n:
                    w_ = Af[i_] @ q[-1]
                    for _ in range(2):
                        for u in q:
                            w_ = w_ - (u @ w_) * u
                    if float(w_.norm()) < 1e-10 * scale:
                        break
                    q.append(w_ / w_.norm())
                if len(q) < n:
                    continue
                Qm = torch.stack(q, 1)
                dT = (Qm.mT @ Af[i_] @ Qm).diagonal()
                want = float(settings.tridiagonal_jitter.value()) * float(dT.min())
                got = float(E[i_].diagonal().mean())
                off = float((E[i_] - got * torch.eye(n, dtype=torch.float64)).abs().max())
                ctx.stat("jitter_amount_checked")
                if want > 0 and (not 0.5 <= got / want <= 2.0 or off > 0.5 * abs(got)):
                    worst = (got, want, off)
            if worst is not None:
                ctx.fail("consumer.root_jitter_amount", "value", err=worst[0] / worst[1],
                         detail=f"R R^T - A = {worst[0]:.3e} I (off-diagonal part {worst[2]:.1e}) where tridiagonal_jitter * min diag(T) = {worst[1]:.3e}", **kw)
            else:
                ctx.ok("consumer.root_jitter_amount", kb, True)
    err = float((G.to(torch.float64) - target).abs().max()) / sc
    if not err <= tl:
        ctx.fail(oname, "value", err=err, detail=f"R R^T differs from the compression onto range(R): err {err:.2e} tol {tl:.1e}", **kw)
    else:
        ctx.ok(oname, kb, True, sample=dict(consumer=cons, n=n, family=fam, max_root_decomposition_size=case["max_iter"], rank=int(keep.sum(-1).max()), err=err))
