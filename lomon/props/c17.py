"""C17 - settings contexts are properly scoped and never leak (history checker + scoped-stack model)."""
import random

from .. import compare
from ..monitors import settings_guard

BUDGET = {"quick": dict(seconds=20, cases=10**9), "thorough": dict(seconds=240, cases=10**9)}
RULE = ("cases: random well-nested histories (2-14 with-blocks, depth <= 5) of construct / enter / exit / exception-exit events over "
        "every settings class (flags, values, per-dtype values, composites fast_computations / linalg_dtypes, beta_features), "
        "with context objects constructed before other contexts are entered, re-used and re-entered objects, 'unset' previous "
        "values and exceptions thrown from any depth; after EVERY event the observable value of EVERY setting (on()/value()/"
        "value(dtype)) is compared with a scoped-stack model; a numerical computation outside the block is compared before/after. "
        "distinct key = (setting class, event kind, nesting depth, constructed-early?, exception?) [added: every plain class attribute of the settings classes (auxiliary process-global state such as the probe-vector cache of deterministic_probes) is part of the state that must be restored; a stochastic log-determinant runs inside deterministic_probes blocks] [round 6: 0 / 0.0 among the values of the per-dtype and scalar settings]")
ASSUMPTIONS = ["the scoped-stack model: enter sets, exit restores what was in force immediately before that entry, nothing else changes",
               "observable state = cls.on()/cls.value()/cls.value(dtype) of every class in linear_operator.settings and beta_features"]
REQUIRED_STATS = ("events",)
SETTINGS_LEAK_IS_FAILURE = False  # C17 reports leaks itself, with the history attached

_VALUES = {
    "cg_tolerance": [0.5, 1e-2, 1e-4, 0.0], "cholesky_max_tries": [1, 2, 6], "max_cg_iterations": [5, 50], "max_cholesky_size": [0, 3, 1000],
    "max_lanczos_quadrature_iterations": [3, 30], "max_preconditioner_size": [0, 2, 5], "max_root_decomposition_size": [2, 50],
    "min_preconditioning_size": [1, 10], "minres_tolerance": [1e-2, 1e-8], "num_contour_quadrature": [7, 25],
    "num_trace_samples": [1, 5, 0], "preconditioner_tolerance": [1e-1, 1e-6], "tridiagonal_jitter": [1e-4, 1e-8, 0.0],
    "stable_qr_cpu_threshold": [1, 1000], "_linalg_dtype_symeig": ["float", "double"], "_linalg_dtype_cholesky": ["float", "double"],
}


def _catalog():
    """name -> (class, kind)"""
    import torch
    from linear_operator import beta_features, settings

    out = {}
    for name, c in settings_guard.classes():
        if issubclass(c, settings._feature_flag) and c is not settings._feature_flag:
            out[name] = (c, "flag")
        elif issubclass(c, settings._value_context) and c is not settings._value_context:
            out[name] = (c, "value")
        elif issubclass(c, settings._dtype_value_context) and c is not settings._dtype_value_context:
            out[name] = (c, "dtype")
    out["beta.default_preconditioner"] = (beta_features.default_preconditioner, "flag")
    out["fast_computations"] = (settings.fast_computations, "composite")
    out["linalg_dtypes"] = (settings.linalg_dtypes, "composite")
    return out, torch


def observe(cat, torch):
    """observable value of every setting through its public read API"""
    obs = {}
    for name, (c, kind) in cat.items():
        if kind == "flag":
            obs[name] = bool(c.on())
        elif kind == "value":
            obs[name] = c.value()
        elif kind == "dtype":
            for dn, dt in (("float", torch.float), ("double", torch.double), ("half", torch.half)):
                obs[f"{name}[{dn}]"] = c.value(dt)
    return obs


def affected(name, kind):
    if kind == "dtype":
        return [f"{name}[float]", f"{name}[double]", f"{name}[half]"]
    if name == "fast_computations":
        return ["_fast_covar_root_decomposition", "_fast_log_prob", "_fast_solves"]
    if name == "linalg_dtypes":
        return ["_linalg_dtype_symeig", "_linalg_dtype_cholesky"]
    return [name]


# ------------------------------------------------------------------ history generation
def gen_args(rng, name, kind):
    if kind == "flag":
        return dict(state=rng.choice([True, False]))
    if kind == "value":
        return dict(value=rng.choice(_VALUES.get(name, [1, 2])))
    if kind == "dtype":
        ch = lambda: rng.choice([None, None, 1e-3, 1e-5, 0.0, 0])  # noqa: E731  (0 / 0.0: "switch the jitter off" is a value, not "leave alone")
        return dict(float_value=ch(), double_value=ch(), half_value=ch())
    if name == "fast_computations":
        return dict(covar_root_decomposition=rng.random() < 0.5, log_prob=rng.random() < 0.5, solves=rng.random() < 0.5)
    return dict(default=rng.choice(["float", "double"]), symeig=rng.choice([None, "float", "double"]), cholesky=rng.choice([None, "float"]))


def gen_history(rng, names_kinds):
    """-> (objects, program).  program is a nested list of blocks: dict(obj, body=[...], raise_after=bool)"""
    nobj = rng.randint(1, 6)
    pool = rng.sample(names_kinds, min(len(names_kinds), rng.randint(1, 3)))
    objects = []
    for i in range(nobj):
        name, kind = rng.choice(pool)
        objects.append(dict(name=name, kind=kind, args=gen_args(rng, name, kind), early=rng.random() < 0.6))
    budget = [rng.randint(2, 14)]

    def block(depth):
        body = []
        while budget[0] > 0 and rng.random() < (0.75 if depth < 5 else 0.0):
            budget[0] -= 1
            o = rng.randrange(nobj)
            b = dict(obj=o, body=block(depth + 1) if rng.random() < 0.6 else [], raises=rng.random() < 0.15)
            body.append(b)
        return body

    return objects, block(0)


def gen_cases(ctx):
    cat, _ = _catalog()
    nk = sorted((n, k) for n, (c, k) in cat.items())
    while True:
        objects, prog = gen_history(ctx.rng, nk)
        if prog:
            yield dict(objects=objects, program=prog, compute=ctx.rng.random() < 0.1)


# ------------------------------------------------------------------ execution + model
class Boom(Exception):
    pass


def _mk(cat, torch, o):
    c, kind = cat[o["name"]]
    a = dict(o["args"])
    if o["name"] in ("_linalg_dtype_symeig", "_linalg_dtype_cholesky"):
        a["value"] = getattr(torch, a["value"])
    if o["name"] == "linalg_dtypes":
        a = {k: (getattr(torch, v) if v is not None else None) for k, v in a.items()}
    return c(**a)


def _expected_after_enter(model, o, torch):
    name, kind, a = o["name"], o["kind"], o["args"]
    if kind == "flag":
        model[name] = bool(a["state"])
    elif kind == "value":
        v = a["value"]
        model[name] = getattr(torch, v) if name.startswith("_linalg_dtype") else v
    elif kind == "dtype":
        for dn in ("float", "double", "half"):
            if a[dn + "_value"] is not None:
                model[f"{name}[{dn}]"] = a[dn + "_value"]
    elif name == "fast_computations":
        model["_fast_covar_root_decomposition"] = bool(a["covar_root_decomposition"])
        model["_fast_log_prob"] = bool(a["log_prob"])
        model["_fast_solves"] = bool(a["solves"])
    else:
        d = getattr(torch, a["default"])
        model["_linalg_dtype_symeig"] = getattr(torch, a["symeig"]) if a["symeig"] else d
        model["_linalg_dtype_cholesky"] = getattr(torch, a["cholesky"]) if a["cholesky"] else d


def _compute(torch):
    from linear_operator.operators import DenseLinearOperator

    g = torch.Generator().manual_seed(5)
    a = torch.randn(6, 6, generator=g, dtype=torch.float64)
    a = a @ a.T + 6 * torch.eye(6, dtype=torch.float64)
    b = torch.randn(6, 2, generator=g, dtype=torch.float64)
    op = DenseLinearOperator(a)
    torch.manual_seed(11)
    s = op.solve(b)
    iq, ld = DenseLinearOperator(a).inv_quad_logdet(b, logdet=True)
    r = DenseLinearOperator(a).root_decomposition().root.to_dense()
    return torch.cat([s.reshape(-1), iq.reshape(-1), ld.reshape(-1), r.reshape(-1)])


def _stochastic_logdet(torch):
    import warnings

    from linear_operator import settings
    from linear_operator.operators import DenseLinearOperator

    g = torch.Generator().manual_seed(7)
    a = torch.randn(5, 5, generator=g, dtype=torch.float64)
    a = a @ a.T + 5 * torch.eye(5, dtype=torch.float64)
    with warnings.catch_warnings():
        warnings.simplefilter("ignore")
        with settings.max_cholesky_size(0), settings.num_trace_samples(3):
            DenseLinearOperator(a).logdet()


def run_case(case, ctx):
    cat, torch = _catalog()
    objects, prog = case["objects"], case["program"]
    settings_guard.check_and_reset()
    model = observe(cat, torch)
    defaults = dict(model)
    before = _compute(torch) if case.get("compute") else None
    live = {}
    constructed_at_depth = {}
    for i, o in enumerate(objects):
        if o["early"]:
            live[i] = _mk(cat, torch, o)
            constructed_at_depth[i] = 0
    nfail = [0]

    def check(event, o, depth, raised, early):
        ctx.stat("events")
        got = observe(cat, torch)
        bad = {k: (repr(model[k]), repr(got[k])) for k in model if got[k] != model[k] and not (got[k] is model[k])}
        key = f"{o['name']}|{event}|d{min(depth, 4)}|early{int(early)}|exc{int(raised)}"
        if not bad:
            ctx.ok("settings_state", key, True,
                   sample=dict(history_len=len(prog), event=event, setting=o["name"], depth=depth, observed=len(got)))
            return
        nfail[0] += 1
        mine = set(affected(o["name"], o["kind"]))
        tags = {o["kind"], event}
        if any(k not in mine for k in bad):
            tags.add("other_setting_changed")
        if early:
            tags.add("constructed_before_entry_of_outer")
        if raised:
            tags.add("exception_exit")
        if o["kind"] == "dtype" and any(model[k] is None for k in bad):
            tags.add("restore_to_unset")
        ctx.fail("settings_state", "leak" if event.startswith("exit") else "value", cls=o["name"] if o["kind"] != "flag" or o["name"].startswith("_") else "flag",
                 path=o["name"], tags=tags, detail=dict(list(bad.items())[:3]))
        # resynchronise the model so that one defect is reported once per event
        model.update(got)

    def run_block(body, depth):
        for b in body:
            i = b["obj"]
            o = objects[i]
            if i not in live:
                live[i] = _mk(cat, torch, o)  # constructed late, right before first use
                constructed_at_depth[i] = depth
            early = constructed_at_depth[i] < depth or o["early"]
            cm = live[i]
            snapshot = {k: model[k] for k in affected(o["name"], o["kind"])}
            raised = False
            try:
                with cm:
                    _expected_after_enter(model, o, torch)
                    check("enter", o, depth, False, early)
                    if case.get("compute") and o["name"] == "deterministic_probes":
                        # fill whatever auxiliary process-global state the block owns (the probe-vector cache): a stochastic
                        # log-determinant inside the block
                        _stochastic_logdet(torch)
                    run_block(b["body"], depth + 1)
                    if b["raises"]:
                        raised = True
                        raise Boom()
            except Boom:
                pass
            model.update(snapshot)
            check("exit_exc" if raised else "exit", o, depth, raised, early)
            aux_now = {k: v for k, v in settings_guard.snapshot().items() if k.split(".")[1] not in settings_guard._ATTRS}
            if depth == 0 and aux_now != aux0:
                ctx.fail("auxiliary_settings_state", "leak", cls=o["name"], path=o["name"], tags={"exception_exit"} if raised else set(),
                         detail={k: (repr(aux0.get(k)), repr(v)) for k, v in aux_now.items() if aux0.get(k) != v})
                settings_guard.check_and_reset()
            elif depth == 0:
                ctx.ok("auxiliary_settings_state", o["name"], True)

    aux0 = {k: v for k, v in settings_guard.snapshot().items() if k.split(".")[1] not in settings_guard._ATTRS}
    try:
        run_block(prog, 0)
    finally:
        pass
    got = observe(cat, torch)
    if got != defaults and nfail[0] == 0:
        ctx.fail("settings_state", "leak", cls="end_of_history", detail="state differs from defaults at end of history")
    if before is not None:
        after = _compute(torch)
        if not torch.equal(before, after):
            ctx.fail("computation_outside_block", "value", cls="any", err=compare.relerr(after, before))
        else:
            ctx.ok("computation_outside_block", f"compute|{len(prog)}", True)
    settings_guard.check_and_reset()


def finish(ctx):
    # thorough tier, shard 0: the repository's own test-suite as a second workload under this property's monitor
    from .. import suite

    suite.ingest(ctx, "settings", "suite.settings")
