"""C10 - pivoted Cholesky under-approximates greedily; its preconditioner is exact."""
import random
import warnings

import torch

from .. import compare, zoo
from ..monitors.hooks import Recorder
from . import common

BUDGET = {"quick": dict(seconds=35, cases=10**9), "thorough": dict(seconds=480, cases=10**9)}
RULE = ("cases: PSD matrices {full rank with prescribed spectrum, numerically low rank (+1e-6 ridge), tied diagonal entries, batches whose "
        "members need different pivots} as Dense and as every PD operator class (row extraction goes through indexing), n 1..12, rank k in "
        "1..n+1, error_tol in {None, 1e-1, 1e-8}; (K + D)._preconditioner() with constant / per-element / batched D under "
        "min_preconditioning_size(1) x max_preconditioner_size {1..n} x preconditioner_tolerance. oracle with R_j = A - L[:, :j] L[:, :j]^T on "
        "the dense matrix: R_r PSD; rows / columns of the chosen pivots vanish; pivot j = argmax of diag(R_j) over unpivoted indices (ties "
        "accepted); trace(R_j) non-increasing; exact at r = n; the library's own residual diagonal (pchol.iter hook) equals diag(R_j); early "
        "stop only if every member's trace(R_r) / max diag(A) <= error_tol; pivots a permutation per member. preconditioner: "
        "closure(V) = (L L^T + D)^-1 V, closure symmetric positive definite, logdet = log|L L^T + D|, dense value of the returned operator "
        "= L L^T + D. distinct key = (clause, matrix family / operator class, rank relative to n, error_tol, dtype, batch rank) [added: non-constant diagonals shared by all batch members, DiagLinearOperators with equal entries (constant-diagonal fast path, value != 1)] [round 4: entry points operator.pivoted_cholesky / linear_operator.pivoted_cholesky(operator) / linear_operator.pivoted_cholesky(tensor) - rank, error_tol, return_pivots must reach the kernel through each]")
ASSUMPTIONS = ["float64 dense recomputation of the residuals R_j is the reference", "pchol.* hook events expose the pivot and the internal residual diagonal per step"]
REQUIRED_STATS = ("pchol_calls", "pchol_iter_events", "precond_calls")


def gen_cases(ctx):
    rng = ctx.rng
    classes = [c for c in zoo.ALL_CLASSES]
    i = ctx.shard
    while True:
        i += 1
        mode = rng.choice(["pchol", "pchol", "pchol_op", "precond"])
        n = rng.choice([1, 2, 3, 4, 6, 8, 12])
        yield dict(mode=mode, n=n, batch=rng.choice([[], [], [2], [3]]), dtype=rng.choice(["f64", "f64", "f32"]),
                   family=rng.choice(["full", "lowrank", "tied", "diffpivots"]), rank=rng.randint(1, n + 1),
                   error_tol=rng.choice([None, 1e-1, 1e-8]), root=classes[i % len(classes)], dkind=rng.choice(["constant", "diag", "batched_constant", "diag_shared", "diag_equal_entries"]),
                   ptol=rng.choice([None, 1e-1, 1e-6]), seed=rng.randrange(1 << 30))


def make_psd(case, g):
    n, batch, fam = case["n"], case["batch"], case["family"]
    if fam == "full":
        A = zoo.pd_matrix(g, n, batch, kappa=50.0, family="geometric")
    elif fam == "lowrank":
        r = max(1, n // 3)
        F = torch.randn(*batch, n, r, generator=g, dtype=torch.float64)
        A = F @ F.mT + 1e-6 * torch.eye(n, dtype=torch.float64)
    elif fam == "tied":
        A = zoo.pd_matrix(g, n, batch, kappa=10.0, family="uniform")
        d = A.diagonal(dim1=-2, dim2=-1)
        s = (d.max(-1, keepdim=True)[0] / d).sqrt()
        A = A * s.unsqueeze(-1) * s.unsqueeze(-2)  # all diagonal entries equal
    else:  # members need different pivots
        A = zoo.pd_matrix(g, n, batch, kappa=30.0, family="uniform")
        if batch:
            perm = torch.argsort(torch.rand(*batch, n, generator=g), dim=-1)
            boost = torch.zeros(*batch, n, dtype=torch.float64).scatter_(-1, perm[..., :1], 3.0)
            A = A + torch.diag_embed(boost)
    return (A + A.mT) / 2


def check_pchol(ctx, A64, L, piv, rec, rank, error_tol, dt, kw, kb, n):
    batch = A64.shape[:-2]
    tol = 1e-9 if dt == torch.float64 else 2e-3
    scale = float(A64.diagonal(dim1=-2, dim2=-1).max()) + 1e-300
    L64 = L.to(torch.float64)
    r = L64.shape[-1]
    if L64.shape[-2] != n or tuple(L64.shape[:-2]) != tuple(batch) or r > min(rank, n) or tuple(piv.shape) != (*batch, n):
        ctx.fail("shapes", "shape", detail=f"L {tuple(L.shape)} pivots {tuple(piv.shape)} for n={n}, rank={rank}", **kw)
        return
    if not torch.isfinite(L64).all():
        ctx.fail("finite", "value", detail="non-finite entries in the factor", **kw)
        return
    srt = torch.sort(piv, -1)[0]
    if not bool((srt == torch.arange(n).expand_as(srt)).all()):
        ctx.fail("pivots_are_a_permutation", "value", detail=str(piv.reshape(-1, n)[0].tolist()), **kw)
        return
    ctx.ok("pivots_are_a_permutation", kb, n >= 2)
    ok = True
    diagA = A64.diagonal(dim1=-2, dim2=-1)
    prev_trace = diagA.sum(-1)
    iters = rec.of("pchol.iter")
    for j in range(r + 1):
        Rj = A64 - L64[..., :, :j] @ L64[..., :, :j].mT
        dj = Rj.diagonal(dim1=-2, dim2=-1)
        trj = dj.sum(-1)
        if not bool((trj <= prev_trace + tol * scale * n).all()):
            ctx.fail("residual_trace_nonincreasing", "value", err=float((trj - prev_trace).max()) / scale, detail=f"step {j}", **kw)
            ok = False
            break
        prev_trace = trj
        if j < r:
            # greedy pivot: the chosen index maximises the residual diagonal over unpivoted indices (ties accepted)
            mask = torch.zeros_like(dj, dtype=torch.bool).scatter_(-1, piv[..., :j], True) if j else torch.zeros_like(dj, dtype=torch.bool)
            cand = dj.masked_fill(mask, -float("inf"))
            chosen = cand.gather(-1, piv[..., j : j + 1]).squeeze(-1)
            if not bool((chosen >= cand.max(-1)[0] - 10 * tol * scale).all()):
                ctx.fail("pivot_is_argmax_of_residual_diagonal", "value", err=float((cand.max(-1)[0] - chosen).max()) / scale, detail=f"step {j}", **kw)
                ok = False
                break
        if j >= 1 and j - 1 < len(iters):
            # the library's internal residual diagonal after step j-1, on the indices it has not pivoted yet
            md = iters[j - 1]["matrix_diag"].to(torch.float64)
            perm = iters[j - 1]["permutation"]
            rest = perm[..., j:]
            if rest.shape[-1] and j < n:
                got = md.gather(-1, rest)
                want = dj.gather(-1, rest)
                if not float((got - want).abs().max()) <= 100 * tol * scale:
                    ctx.fail("internal_residual_diagonal", "value", err=float((got - want).abs().max()) / scale, detail=f"step {j}", **kw)
                    ok = False
                    break
    if not ok:
        return
    ctx.ok("greedy_trace", kb, n >= 2)
    Rr = A64 - L64 @ L64.mT
    lmin = float(torch.linalg.eigvalsh((Rr + Rr.mT) / 2)[..., 0].min())
    if not lmin >= -100 * tol * scale:
        ctx.fail("residual_psd", "value", err=-lmin / scale, **kw)
        return
    pr = piv[..., :r]
    rows = Rr.gather(-2, pr.unsqueeze(-1).expand(*batch, r, n))
    if r and not float(rows.abs().max()) <= 100 * tol * scale:
        ctx.fail("pivot_rows_vanish", "value", err=float(rows.abs().max()) / scale, **kw)
        return
    ctx.ok("residual_psd_and_pivot_rows_vanish", kb, n >= 2)
    if r == n:
        if not float(Rr.abs().max()) <= 1000 * tol * scale:
            ctx.fail("exact_at_full_rank", "value", err=float(Rr.abs().max()) / scale, **kw)
            return
        ctx.ok("exact_at_full_rank", kb, n >= 2)
    if r < min(rank, n):
        et = error_tol if error_tol is not None else 1e-3
        rel = Rr.diagonal(dim1=-2, dim2=-1).sum(-1) / diagA.max(-1)[0]
        if not bool((rel <= et * (1 + 1e-6) + 100 * tol).all()):
            ctx.fail("early_stop_only_below_tolerance", "value", err=float(rel.max()), detail=f"stopped at rank {r} < min({rank}, {n}) with residual trace / max diag = {float(rel.max()):.3e} > error_tol {et:.1e}", **kw)
            return
        ctx.ok("early_stop_only_below_tolerance", kb, n >= 2)


def run_case(case, ctx):
    from linear_operator import settings
    from linear_operator.operators import ConstantDiagLinearOperator, DenseLinearOperator, DiagLinearOperator

    dt = zoo.DT[case["dtype"]]
    g = torch.Generator().manual_seed(case["seed"])
    rng = random.Random(case["seed"])
    n, batch = case["n"], case["batch"]
    mode = case["mode"]
    info = {case["dtype"], f"n{n}", f"rank{case['rank']}", f"tol{case['error_tol']}"} | ({"batched"} if batch else set())
    rrel = "lt_n" if case["rank"] < n else ("eq_n" if case["rank"] == n else "gt_n")
    if mode in ("pchol", "pchol_op"):
        if mode == "pchol":
            A64 = make_psd(case, g)
            A = A64.to(dt)
            op = DenseLinearOperator(A)
            A64 = A.to(torch.float64)
            cname, path, tags = "pivoted_cholesky", case["family"], {"family:" + case["family"]}
        else:
            spec = zoo.gen_spec(rng, "pd", max(n, 2), max(n, 2), batch, depth=rng.choice([1, 2]), dtype=case["dtype"], root=case["root"])
            if spec is None:
                return
            b = common.try_build(spec, ctx)
            if b is None:
                return
            op, A64 = b.op, b.dense.to(torch.float64)
            n = spec["n"]
            cname, path, tags = spec["cls"], zoo.class_path(spec, 2), common.spec_tags(spec)
            ctx.case = dict(case, spec=spec)
        kw = dict(cls=cname, path=path, tags=set(tags), info=info)
        kb = f"{path if mode == 'pchol' else cname}|{rrel}|tol{case['error_tol']}|{case['dtype']}|b{len(batch)}"
        ctx.stat("pchol_calls")
        with Recorder(keep=("pchol",), clone=True) as rec, warnings.catch_warnings():
            warnings.simplefilter("ignore")
            # entry point: the operator method, or the functional API (linear_operator.pivoted_cholesky) on the tensor / the operator;
            # the caller's rank / error_tol / return_pivots must reach the kernel through either
            entry = ("method", "functional", "functional_tensor")[(case["seed"] >> 5) % 3]
            if entry == "functional_tensor" and mode != "pchol":
                entry = "functional"
            info.add("entry:" + entry)
            ctx.stat("entry:" + entry)
            if entry == "method":
                out, ex = compare.attempt(lambda: op.pivoted_cholesky(case["rank"], error_tol=case["error_tol"], return_pivots=True))
            else:
                import linear_operator

                arg = A if entry == "functional_tensor" else op
                out, ex = compare.attempt(lambda: linear_operator.pivoted_cholesky(arg, case["rank"], error_tol=case["error_tol"], return_pivots=True))
        ctx.stat("pchol_iter_events", rec.count("pchol.iter"))
        if ex is not None:
            if ex.type == "StepBoundExceeded":
                ctx.fail("step_bound", "value", detail=ex.msg, **kw)
            elif compare.explicit_unsupported(ex):
                ctx.stat(f"unsupported:{cname}")
            else:
                ctx.fail("pivoted_cholesky", "exception", exc=ex, **kw)
            return
        L, piv = out
        if hasattr(L, "to_dense") and not torch.is_tensor(L):
            L = L.to_dense()
        check_pchol(ctx, (A64 + A64.mT) / 2, L.detach(), piv, rec, case["rank"], case["error_tol"], dt, kw, kb, n)
        return
    # ---------------- preconditioner of K + D
    n = max(n, 2)
    K64 = make_psd(dict(case, n=n), g)
    K = K64.to(dt)
    K64 = K.to(torch.float64)
    dk = case["dkind"]
    if dk == "constant":
        c = (0.1 + torch.rand(1, generator=g, dtype=torch.float64)).to(dt)
        Dop = ConstantDiagLinearOperator(c.expand(*batch, 1) if batch else c, n)
        D64 = torch.diag_embed(c.to(torch.float64).expand(*batch, n))
    elif dk == "batched_constant":
        c = (0.1 + torch.rand(*batch, 1, generator=g, dtype=torch.float64)).to(dt)
        Dop = ConstantDiagLinearOperator(c, n)
        D64 = torch.diag_embed(c.to(torch.float64).expand(*batch, n))
    elif dk == "diag_shared":
        # a non-constant diagonal that is the SAME for every member of the batch (repeated / expanded)
        d0 = (0.1 + torch.rand(n, generator=g, dtype=torch.float64)).to(dt)
        d = d0.repeat(*batch, 1) if batch and case["seed"] % 2 else d0.expand(*batch, n)
        Dop = DiagLinearOperator(d)
        D64 = torch.diag_embed(d.to(torch.float64))
    elif dk == "diag_equal_entries":
        # a DiagLinearOperator whose entries happen to be equal within each member (constant-diagonal fast path, value != 1)
        c = (0.1 + 3 * torch.rand(*batch, 1, generator=g, dtype=torch.float64)).to(dt)
        d = c.expand(*batch, n).contiguous()
        Dop = DiagLinearOperator(d)
        D64 = torch.diag_embed(d.to(torch.float64))
    else:
        d = (0.1 + torch.rand(*batch, n, generator=g, dtype=torch.float64)).to(dt)
        Dop = DiagLinearOperator(d)
        D64 = torch.diag_embed(d.to(torch.float64))
    op = DenseLinearOperator(K) + Dop
    k = min(case["rank"], n)
    kw = dict(cls=type(op).__name__.replace("LinearOperator", ""), path=dk, tags={"D:" + dk}, info=info | {f"max_preconditioner_size{k}"})
    kb = f"precond|{dk}|{rrel}|ptol{case['ptol']}|{case['dtype']}|b{len(batch)}"
    ctx.stat("precond_calls")
    import contextlib

    with contextlib.ExitStack() as st, warnings.catch_warnings():
        warnings.simplefilter("ignore")
        st.enter_context(settings.min_preconditioning_size(1))
        st.enter_context(settings.max_preconditioner_size(k))
        if case["ptol"] is not None:
            st.enter_context(settings.preconditioner_tolerance(case["ptol"]))
        out, ex = compare.attempt(lambda: op._preconditioner())
        if ex is not None:
            ctx.fail("preconditioner", "exception", exc=ex, **kw)
            return
        closure, P, logdet = out
        if closure is None:
            ctx.stat("no_preconditioner_built")
            return
        Lref, ex = compare.attempt(lambda: DenseLinearOperator(K).pivoted_cholesky(k, error_tol=case["ptol"]))
        Pd, ex2 = compare.attempt(lambda: P.to_dense())
        V = torch.randn(*batch, n, 3, generator=g, dtype=torch.float64).to(dt)
        CV, ex3 = compare.attempt(lambda: closure(V))
        CI, ex4 = compare.attempt(lambda: closure(torch.eye(n, dtype=dt).expand(*batch, n, n).contiguous()))
    for e_ in (ex, ex2, ex3, ex4):
        if e_ is not None:
            ctx.fail("preconditioner", "exception", exc=e_, **kw)
            return
    tol = 1e-8 if dt == torch.float64 else 5e-3
    Lr = Lref.to(torch.float64) if torch.is_tensor(Lref) else Lref.to_dense().to(torch.float64)
    Pref = Lr @ Lr.mT + D64
    sc = float(Pref.abs().max())
    e1 = float((Pd.to(torch.float64) - Pref).abs().max()) / sc
    if not e1 <= tol:
        ctx.fail("preconditioner_operator_is_LLt_plus_D", "value", err=e1, **kw)
        return
    ctx.ok("preconditioner_operator_is_LLt_plus_D", kb)
    want = torch.linalg.solve(Pref, V.to(torch.float64))
    kap = float(torch.linalg.cond(Pref).max())
    e2 = compare.relerr(CV, want, scale=1e-300)
    if not e2 <= tol * max(kap, 1.0):
        ctx.fail("closure_applies_exact_inverse", "value", err=e2, detail=f"cond(P) {kap:.1e}", **kw)
        return
    ctx.ok("closure_applies_exact_inverse", kb)
    CI64 = CI.to(torch.float64)
    asym = float((CI64 - CI64.mT).abs().max()) * float(Pref.abs().max())
    lmin = float(torch.linalg.eigvalsh((CI64 + CI64.mT) / 2)[..., 0].min())
    if not (asym <= tol * max(kap, 1.0) * 10 and lmin > 0):
        ctx.fail("closure_symmetric_positive_definite", "value", err=asym, detail=f"asymmetry {asym:.2e}, lambda_min {lmin:.2e}", **kw)
        return
    ctx.ok("closure_symmetric_positive_definite", kb)
    ld = logdet if torch.is_tensor(logdet) else torch.tensor(float(logdet))
    e3 = float((ld.to(torch.float64) - torch.logdet(Pref)).abs().max()) / n
    if not e3 <= tol * max(kap, 1.0):
        ctx.fail("preconditioner_logdet", "value", err=e3, **kw)
        return
    ctx.ok("preconditioner_logdet", kb, True, sample=dict(n=n, batch=batch, D=dk, max_preconditioner_size=k, rank=int(Lr.shape[-1]), cond_P=kap, logdet_err=e3))
