"""C18 - Gaussian sampling uses a true square root of the covariance (noise interposer + exact linear-map oracle)."""
import math
import random
import warnings

import torch

from .. import compare, zoo
from ..monitors.hooks import Recorder
from ..monitors.noise import Noise
from . import common
from .c04 import settings_key, settings_stack

BUDGET = {"quick": dict(seconds=40, cases=10**9), "thorough": dict(seconds=540, cases=10**9)}
RULE = ("cases: PSD / PD operators of every class (nestings to depth 2, n 1..6, batch shapes (), (2,), (2,1)), k in {1, 2, 3} draws, settings "
        "{max_cholesky_size 0/default, fast covar_root_decomposition on/off, ciq_samples on/off}. torch.randn is interposed: the sampler is "
        "run once per unit vector of its flattened base noise (auxiliary draws - random Lanczos start vectors - are served from a fixed "
        "seeded stream), which yields the matrix M of the map noise -> samples. oracle: output shape (k, *batch, n); the map is linear "
        "(a random noise vector reproduces M z); M M^T = I_k (x) blockdiag_b(A_b) to the accuracy of the root used (Cholesky: direct; "
        "Lanczos root identified through lanczos.* hook events: jitter tolerance, kappa <= 100; contour-integral variant: 1e-4; "
        "contour-integral sampling through an active pivoted-Cholesky preconditioner (AddedDiag, thresholds lowered): R R^T = A with basis noise, 1e-3). "
        "distinct key = (root class, sampler path, k, settings key, dtype, batch rank) [round 4: one warm-up query (diagonalization, logdet, cholesky, root_inv, eigh, svd, Lanczos inverse root) may precede sampling: the cached factorization steers the sampler's root method; Lanczos-path failures carry the tag batch_member_repeated_eigenvalue when a batched part has a member with a repeated eigenvalue]")
ASSUMPTIONS = ["every base draw of a sampler goes through torch.randn (checked: a sampler whose recorded noise has zero elements is inconclusive)",
               "float64 dense covariance is the reference"]
REQUIRED_STATS = ("samplers_probed", "sampler_calls")


def gen_cases(ctx):
    rng = ctx.rng
    classes = list(zoo.ALL_CLASSES)
    i = ctx.shard
    while True:
        root = classes[i % len(classes)]
        i += 1
        n = rng.choice([1, 2, 3, 4, 5, 6])
        kind = rng.choice(["pd", "pd", "psd"])
        batch = rng.choice([[], [], [2], [2, 1]])
        spec = zoo.gen_spec(rng, kind, n, n, batch, depth=rng.choice([1, 1, 2]), dtype=rng.choice(["f64", "f64", "f32"]), root=root)
        if spec is None:
            continue
        cfg = dict(max_cholesky_size=rng.choice([None, None, 0]), fast_root=rng.choice([None, None, False]))
        if rng.random() < 0.06:
            # contour-integral sampling THROUGH a pivoted-Cholesky preconditioner (size thresholds lowered): low-rank-ish + diagonal
            nn = rng.choice([6, 8, 10])
            sp = zoo.gen_spec(rng, "pd", nn, nn, rng.choice([[], [], [2]]), depth=1, dtype="f64", root="AddedDiag")
            if sp is not None:
                yield dict(spec=sp, k=nn, cfg=dict(max_cholesky_size=None, fast_root=None), ciq=True, ciq_precond=rng.choice([2, 3]), seed=rng.randrange(1 << 30))
        # warm: a query made on the operator BEFORE sampling (its cached factorization steers the sampler's choice of root method)
        warm = rng.choice([None, None, None, "diagonalization", "logdet", "cholesky", "root_inv", "eigh", "svd", "root_lanczos"])
        yield dict(spec=spec, k=rng.choice([1, 2, 3]), cfg=cfg, ciq=rng.random() < 0.15, seed=rng.randrange(1 << 30), warm=warm)


def _degenerate(spec):
    return {"batch_member_repeated_eigenvalue"} if common.batch_member_degenerate(spec) else set()


def run_case(case, ctx):
    from linear_operator import settings

    spec = case["spec"]
    b = common.try_build(spec, ctx)
    if b is None:
        return
    op, dense = b.op, b.dense
    n, batch, k = spec["n"], spec["batch"], case["k"]
    dt = dense.dtype
    A64 = dense.to(torch.float64)
    A64 = (A64 + A64.mT) / 2
    ev = torch.linalg.eigvalsh(A64)
    lam_max = float(ev[..., -1].max())
    lam_min = float(ev[..., 0].min())
    kappa = lam_max / lam_min if lam_min > 1e-12 * max(lam_max, 1e-300) else float("inf")
    from linear_operator.operators import LinearOperator

    # the contour-integral variant lives in the generic sampler only; classes with samplers of their own ignore the flag (or use it
    # inside their parts, where the summed map hides it)
    ciq = case["ciq"] and kappa <= 100 and dt == torch.float64 and type(op).zero_mean_mvn_samples is LinearOperator.zero_mean_mvn_samples and n >= 2
    cfg = dict(case["cfg"])
    tags = common.spec_tags(spec)
    info = common.spec_info(spec) | {f"k{k}", "cfg:" + settings_key(cfg)} | ({"ciq"} if ciq else set()) | {spec["kind"]}
    path = zoo.class_path(spec, 2)
    kw = dict(cls=spec["cls"], path=path, tags=set(tags), info=info)

    def sample(feed):
        with Noise(feed) as nz:
            out = op.zero_mean_mvn_samples(k)
        return out, nz

    import contextlib

    st = contextlib.ExitStack()
    st.enter_context(settings_stack(cfg, n))
    if ciq:
        st.enter_context(settings.ciq_samples(True))
        st.enter_context(settings.minres_tolerance(1e-10))
        if case.get("ciq_precond"):
            st.enter_context(settings.min_preconditioning_size(1))
            st.enter_context(settings.max_preconditioner_size(case["ciq_precond"]))
    with st, Recorder(keep=("lanczos",), clone=False) as rec, warnings.catch_warnings():
        warnings.simplefilter("ignore")
        warm = case.get("warm")
        if warm:
            wf = {"diagonalization": lambda: op.diagonalization(), "logdet": lambda: op.logdet(), "cholesky": lambda: op.cholesky(),
                  "root_inv": lambda: op.root_inv_decomposition(), "eigh": lambda: op.eigh(), "svd": lambda: op.svd(),
                  "root_lanczos": lambda: op.root_inv_decomposition(method="lanczos")}[warm]
            _, wex = compare.attempt(wf)
            ctx.stat("warmed:" + warm if wex is None else "warm_query_raised:" + warm)
            kw["info"] = info = info | {"warm:" + warm}
        res, ex = compare.attempt(sample, None)
        if ex is not None:
            if compare.explicit_unsupported(ex):
                ctx.stat(f"unsupported:{spec['cls']}")
                return
            ctx.fail("zero_mean_mvn_samples", "exception", exc=ex, **kw)
            return
        s0, nz0 = res
        ctx.stat("samplers_probed")
        want_shape = (k, *batch, n)
        if tuple(s0.shape) != want_shape:
            ctx.fail("sample_shape", "shape", detail=f"got {tuple(s0.shape)} want {want_shape}", **kw)
            return
        tot = sum(math.prod(s) for s in nz0.shapes)
        if tot == 0:
            ctx.inconclusive("sampler drew no base noise through torch.randn")
            return
        if tot > 150:
            ctx.stat("noise_too_large(not probed)")
            return
        if ciq and nz0.shapes != [(*batch, n, k)]:
            ciq = False  # the class has a sampler of its own (diagonal, block, sum of parts ...): probed like any other
        if ciq and case.get("ciq_precond"):
            # with a preconditioner the contour-integral root is P^{1/2} M^{1/2}, a non-symmetric square root: probe it with the
            # basis (k = n samples, noise = identity) and judge R R^T = A
            Zi = torch.eye(n, dtype=torch.float64).expand(*batch, n, n).contiguous()
            sz, nzz = sample(Zi.reshape(-1))
            ctx.stat("sampler_calls")
            ctx.stat("path:ciq_preconditioned")
            if nzz.shapes != [(*batch, n, n)]:
                ctx.inconclusive("preconditioned contour-integral sampler drew its noise in another layout")
                return
            R = sz.to(torch.float64).permute(*range(1, len(batch) + 1), -1, 0)  # (*batch, n, k): column i = sample for e_i
            e = compare.relerr(R @ R.mT, A64, scale=1e-300)
            if not e <= 1e-3:
                ctx.fail("ciq_preconditioned_covariance", "value", err=e, detail=f"R R^T differs from A by {e:.2e} (preconditioner rank {case['ciq_precond']})",
                         **dict(kw, tags=set(tags) | {"path:ciq", "precond"}))
            else:
                ctx.ok("ciq_preconditioned_covariance", f"{spec['cls']}|ciq|precond{case['ciq_precond']}|b{len(batch)}", True,
                       sample=dict(spec=zoo.class_path(spec, 3), path="ciq+preconditioner", n=n, err=e))
            return
        if ciq:
            # the quadrature rule depends (weakly) on the noise itself through its Lanczos eigenvalue estimate, so the map is only linear
            # up to quadrature accuracy: judge the sample for one recorded noise vector against A^{1/2} z directly
            g = torch.Generator().manual_seed(case["seed"])
            z = torch.randn(tot, generator=g, dtype=torch.float64)
            sz, nzz = sample(z)
            ctx.stat("sampler_calls")
            ctx.stat("path:ciq")
            if len(nzz.shapes) != 1:
                ctx.inconclusive("contour-integral sampler drew its noise in several pieces")
                return
            Z = z.reshape(nzz.shapes[0])  # (*batch, n, k)
            evs, V = torch.linalg.eigh(A64)
            Ah = (V * evs.clamp_min(0).sqrt().unsqueeze(-2)) @ V.mT
            want = (Ah @ Z).permute(-1, *range(len(batch)), -2)
            e = compare.relerr(sz, want, scale=1e-300)
            if not e <= 1e-4:
                ctx.fail("ciq_sample_is_root_times_noise", "value", err=e, **dict(kw, tags=set(tags) | {"path:ciq"}))
            else:
                ctx.ok("ciq_sample_is_root_times_noise", f"{spec['cls']}|ciq|k{k}|{settings_key(cfg)}|b{len(batch)}", n >= 2,
                       sample=dict(spec=zoo.class_path(spec, 3), path="ciq", k=k, err=e))
            return
        if not torch.isfinite(s0).all() and dt == torch.float32 and rec.count("lanczos.end") > 0:
            ctx.stat("float32_lanczos_root_non_finite(inconclusive, see C09 finding)")
            return
        if float(s0.abs().max()) != 0.0 or not torch.isfinite(s0).all():
            ctx.fail("zero_noise_gives_zero", "value", detail="samples for all-zero base noise are not zero",
                     **dict(kw, tags=set(kw["tags"]) | ({"path:lanczos"} | _degenerate(spec) if rec.count("lanczos.end") > 0 else set())))
            return
        cols = []
        for j in range(tot):
            e = torch.zeros(tot, dtype=torch.float64)
            e[j] = 1.0
            out, nzj = sample(e)
            ctx.stat("sampler_calls")
            if nzj.shapes != nz0.shapes:
                ctx.inconclusive("noise layout changed between probing runs")
                return
            cols.append(out.reshape(-1).to(torch.float64))
        M = torch.stack(cols, 1)  # (k * B * n, tot)
        g = torch.Generator().manual_seed(case["seed"])
        z = torch.randn(tot, generator=g, dtype=torch.float64)
        sz, _ = sample(z)
    used_lanczos = rec.count("lanczos.end") > 0
    pathk = "ciq" if ciq else ("lanczos" if used_lanczos else "direct")
    ctx.stat("path:" + pathk)
    key = f"{spec['cls']}|{pathk}|k{k}|{settings_key(cfg)}|{spec['dtype']}|b{len(batch)}"
    if not torch.isfinite(M).all():
        ctx.fail("finite", "value", detail="non-finite samples", **dict(kw, tags=set(tags) | {"path:" + pathk} | (_degenerate(spec) if used_lanczos else set())))
        return
    # relative to the matrix, but never below 1e-2: the factorizations add jitter of 1e-8 .. 1e-4 of the *factors'* scale, so a matrix
    # that is numerically zero next to its own building blocks (an interpolation that cancels a rank-1 base) is judged absolutely
    scale = max(lam_max, 1e-2)
    eps = torch.finfo(dt).eps
    if dt == torch.float32 and not kappa <= 1e6:
        ctx.stat("float32_singular_covariance(inconclusive)")
        return
    lin = float((M @ z - sz.reshape(-1).to(torch.float64)).abs().max()) / math.sqrt(scale)
    if not lin <= 1e4 * eps * max(1.0, math.sqrt(min(kappa, 1e8))):
        ctx.fail("linear_in_the_noise", "value", err=lin, **dict(kw, tags=set(tags) | {"path:" + pathk} | (_degenerate(spec) if used_lanczos else set())))
        return
    ctx.ok("linear_in_the_noise", key, n >= 2)
    Bn = 1
    for x in batch:
        Bn *= x
    blocks = [blk for _ in range(k) for blk in A64.reshape(Bn, n, n)]
    ref = torch.block_diag(*blocks)
    C = M @ M.mT
    err = float((C - ref).abs().max()) / scale
    if pathk == "direct":
        # sums of independent draws factor each (possibly singular) part separately: the documented Cholesky jitter (1e-8 .. 1e-6 absolute)
        # is part of "the accuracy of the root used"
        tol = max(2000 * eps * min(max(kappa, 1.0), 1e6) + 100 * eps, 5e-6 if compare.is64(dt) else 2e-3)
        if zoo.spec_classes(spec) & {"Toeplitz", "Interpolated"}:
            tol = max(tol, compare.tol_fft(dt))
        if not kappa <= 1e8:
            tol = max(tol, 2e-3)  # numerically singular covariance: jittered / clamped factors of the parts, gross errors only
    else:
        if dt == torch.float32 or not kappa <= 100:
            ctx.stat("lanczos_path_ill_conditioned(inconclusive)")
            return
        tol = 5e-3
        # a Lanczos root spans only the Krylov space of its start vector: the covariance of the draws is the orthogonal compression of A
        # onto the space the root spans (A itself when that is the whole space)
        blocksC = []
        okc = True
        for i_ in range(k * Bn):
            Cb = C[i_ * n : (i_ + 1) * n, i_ * n : (i_ + 1) * n]
            w, U = torch.linalg.eigh((Cb + Cb.mT) / 2)
            keep = (w > 1e-8 * max(float(w[-1]), 1e-300)).to(torch.float64)
            Pm = (U * keep) @ U.mT
            blocksC.append(Pm @ blocks[i_] @ Pm)
        ref = torch.block_diag(*blocksC)
        err = float((C - ref).abs().max()) / scale
        full = all(float((bc - b_).abs().max()) <= 1e-9 * scale for bc, b_ in zip(blocksC, blocks))
        generic = type(op).zero_mean_mvn_samples is LinearOperator.zero_mean_mvn_samples
        if len(nz0.shapes) > 1 or not generic:
            # sums of independently drawn parts / samplers that transform a base operator's draw: each part is compressed onto the Krylov
            # space of *its* root, which the composed map does not reveal
            ctx.stat("lanczos_roots_inside_a_composed_sampler(not judged)")
            return
        ctx.stat("lanczos_root_spans_whole_space" if full else "lanczos_root_spans_a_subspace(compression judged)")
    if not err <= tol:
        ctx.fail("covariance_of_the_map", "value", err=err, detail=f"M M^T vs I_k (x) blockdiag(A_b): err {err:.2e} tol {tol:.1e} ({pathk}, noise {nz0.shapes})", **dict(kw, tags=set(tags) | {"path:" + pathk} | (_degenerate(spec) if used_lanczos else set())))
        return
    ctx.ok("covariance_of_the_map", key, n >= 2, sample=dict(spec=zoo.class_path(spec, 3), path=pathk, k=k, noise_shapes=[list(s) for s in nz0.shapes],
                                                             aux_draws=[list(s) for s in nz0.aux_shapes], sampler_calls=tot + 2, err=err))
