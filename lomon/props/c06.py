"""C06 - every factorization returned really factorizes the operator."""
import random
import warnings

import torch

from .. import compare, zoo
from ..monitors.hooks import Recorder
from . import common
from .c04 import settings_key, settings_stack

BUDGET = {"quick": dict(seconds=45, cases=10**9), "thorough": dict(seconds=720, cases=10**9)}
RULE = ("cases: PSD / PD operators (every class at the root, nestings to depth 2-3, n 1..8 quick / ..32 thorough, batch shapes) x queries "
        "{cholesky(upper), root_decomposition(method), root_inv_decomposition(method), eigh, eigvalsh, svd, diagonalization(method), "
        "torch.linalg.{cholesky,eigh,eigvalsh,svd}} x every method string x settings {max_cholesky_size 0/default, "
        "max_root_decomposition_size below/above n, fast covar_root_decomposition on/off}. oracle: reconstruction on the dense matrix "
        "(L L^T = A with L triangular in the requested orientation; R R^T = A or A^-1; Q^T Q = I and Q diag(w) Q^T = A; U, V orthonormal, "
        "S >= 0, U diag(S) V^T = A); Lanczos-based roots (read from lanczos.* hook events): R R^T = P A P with P the orthogonal projector "
        "onto range(R), within the jitter tolerance; pivoted_cholesky: A - R R^T PSD. distinct key = (root class, query, method, path, "
        "settings key, dtype) [added: composite Kronecker factors (Root with a non-triangular root, AddedDiag, ConstantMul, PsdSum) for Kron / SumKron / KronAddedDiag roots; errors relative to max(||A||, 1e-2) (absolute jitter)] [round 5: in 35% of the cases the operator's own square symmetric sub-operators are factorized the same way AFTER the whole and judged against their denotation taken before (tag part_after_whole)] [round 6: dense operators also get 1 / 3 supplied start vectors for Lanczos inverse roots, and the root such a run leaves in the cache is judged (shape, compression identity)]")
ASSUMPTIONS = ["float64 reconstruction on the dense matrix is the reference", "lanczos.* hook events identify Lanczos-based results",
               "jittered-Lanczos tolerance 1e-4 * kappa (kappa <= 100, float64 only); direct tolerance 2000 eps kappa"]
REQUIRED_STATS = ("queries", "path:lanczos", "path:direct")

ROOT_METHODS = [None, "cholesky", "symeig", "diagonalization", "svd", "lanczos", "pivoted_cholesky"]
ROOT_INV_METHODS = [None, "cholesky", "symeig", "diagonalization", "svd", "lanczos", "pinverse"]
QUERIES = ["cholesky", "cholesky", "root_decomposition", "root_decomposition", "root_inv_decomposition", "root_inv_decomposition",
           "eigh", "eigvalsh", "svd", "diagonalization", "torch.cholesky", "torch.eigh", "torch.eigvalsh", "torch.svd"]


def gen_cases(ctx):
    rng = ctx.rng
    classes = list(zoo.ALL_CLASSES)
    sizes = [1, 2, 3, 4, 5, 6, 8] if ctx.tier == "quick" else [1, 2, 3, 4, 6, 8, 12, 16, 32]
    i = ctx.shard
    while True:
        root = classes[i % len(classes)]
        i += 1
        n = rng.choice(sizes)
        q = rng.choice(QUERIES)
        kind = "pd" if (q in ("cholesky", "torch.cholesky", "root_inv_decomposition") or rng.random() < 0.7) else "psd"
        batch = rng.choice([[], [], [2], [2, 1], [3, 2]])
        dtype = rng.choice(["f64", "f64", "f64", "f32"])
        spec = zoo.gen_spec(rng, kind, n, n, batch, depth=rng.choice([1, 2, 2, 3]), dtype=dtype, root=root)
        if spec is None:
            continue
        if spec["cls"] in ("SumKron", "Kron", "KronAddedDiag") and spec["kind"] == "pd" and rng.random() < 0.5:
            # Kronecker factors that are operators with factorizations of their own (a RootLinearOperator with a non-triangular root,
            # sums, scaled operators ...): the structured roots are assembled from the FACTORS' roots / inverse roots
            krons = [spec] if spec["cls"] == "Kron" else [c for c in spec["children"] if c["cls"] == "Kron"]
            if krons:
                kr = krons[-1]
                j = rng.randrange(len(kr["children"]))
                f = kr["children"][j]
                if f["n"] == f["m"] and f["n"] >= 2:
                    sub = zoo.gen_spec(rng, "pd", f["n"], f["n"], f["batch"], depth=1, dtype=f["dtype"], root=rng.choice(["Root", "Root", "AddedDiag", "ConstantMul", "PsdSum"]))
                    if sub is not None:
                        kr["children"][j] = sub
        method = None
        if q == "root_decomposition":
            method = rng.choice(ROOT_METHODS)
            if zoo.spec_classes(spec) & {"Interpolated", "ConstantMul", "Kernel"} and rng.random() < 0.4:
                method = "pivoted_cholesky"  # classes whose approximate diagonal is not their diagonal
        elif q == "root_inv_decomposition":
            method = rng.choice(ROOT_INV_METHODS)
        elif q == "diagonalization":
            method = rng.choice([None, "lanczos", "symeig"])
        cfg = dict(max_cholesky_size=rng.choice([None, None, 0]),
                   max_root_decomposition_size=rng.choice([None, None, max(1, n - 1), n + 2]),
                   fast_root=rng.choice([None, None, False]))
        yield dict(spec=spec, query=q, method=method, upper=rng.random() < 0.4, cfg=cfg, rseed=rng.randrange(1 << 30), parts=rng.random() < 0.35)


def _dense(x):
    if torch.is_tensor(x):
        return x
    return x.to_dense()


def run_case(case, ctx):
    spec = case["spec"]
    b = common.try_build(spec, ctx)
    if b is None:
        return
    # the operator's own sub-operators (square, symmetric), denoted BEFORE anything is factorized
    parts = []
    if case.get("parts"):
        from .. import model

        for a in list(getattr(b.op, "_args", ())) + list(getattr(b.op, "_kwargs", {}).values()):
            if hasattr(a, "to_dense") and not torch.is_tensor(a) and a.dim() >= 2 and a.shape[-1] == a.shape[-2] and a.shape[-1] >= 2:
                d, exd = compare.attempt(model.denote, a)
                if exd is None and float((d - d.mT).abs().max()) <= 1e-6 * (float(d.abs().max()) + 1e-300):
                    parts.append((a, d))
    case["_state"] = {}
    try:
        _run_parts(case, ctx, spec, b, parts)
    finally:
        case.pop("_state", None)


def _run_parts(case, ctx, spec, b, parts):
    _judge(case, ctx, spec, b.op, b.dense)
    # ... and factorized the same way AFTER the whole: a factorization of the sum / product / scaled operator must leave the
    # factorizations its parts answer with (shared memo entries, tensors handed out by reference) factorizations of the PARTS
    for a, d in parts:
        ev = torch.linalg.eigvalsh((d.to(torch.float64) + d.to(torch.float64).mT) / 2)
        if float(ev[..., 0].min()) < (1e-6 if case["query"] in ("cholesky", "torch.cholesky", "root_inv_decomposition") else -1e-8) * float(ev[..., -1].abs().max()):
            continue
        ctx.stat("parts_refactorized_after_whole")
        _judge(case, ctx, spec, a, d, part=type(a).__name__)


def _judge(case, ctx, spec, op, dense, part=None):
    n, batch = dense.shape[-1], list(dense.shape[:-2])
    dt = dense.dtype
    A64 = dense.to(torch.float64)
    A64 = (A64 + A64.mT) / 2
    q, method, upper = case["query"], case["method"], case["upper"]
    cfg = dict(case["cfg"])
    evA = torch.linalg.eigvalsh(A64)
    lam_max = float(evA[..., -1].abs().max())
    lam_min = float(evA[..., 0].min())
    kappa = lam_max / max(lam_min, 1e-300) if lam_min > 0 else float("inf")
    tags = common.spec_tags(spec) | ({"part_after_whole"} if part else set())
    info = common.spec_info(spec) | {"q:" + q, f"method:{method}", "cfg:" + settings_key(cfg), spec["kind"]} | ({"upper"} if upper and "cholesky" in q else set()) \
        | ({"part:" + part} if part else set())
    path = zoo.class_path(spec, 2)
    ctx.stat("queries")

    def call():
        if q == "cholesky":
            return op.cholesky(upper=upper)
        if q == "torch.cholesky":
            return torch.linalg.cholesky(op, upper=upper)
        if q == "root_decomposition":
            return op.root_decomposition(method=method).root
        if q == "root_inv_decomposition":
            # (dense operators only: supplied start vectors are C09's subject, and classes with exact inverse roots of their own do
            # not produce the probe dimension the post-processing of several vectors expects - outside this property's quantifier)
            niv = (case["rseed"] >> 6) % 4 if method == "lanczos" and part is None and spec["cls"] in ("Dense", "User") else 0
            if niv in (1, 3):
                # supplied start vector(s): one column (no probe dimension in the Lanczos result) or several
                iv = torch.randn(*batch, n, niv, generator=torch.Generator().manual_seed(case["rseed"]), dtype=torch.float64).to(dt)
                info.add(f"initial_vectors:{niv}")
                return op.root_inv_decomposition(initial_vectors=iv, test_vectors=iv, method=method).root
            return op.root_inv_decomposition(method=method).root
        if q == "eigh":
            return op.eigh()
        if q == "torch.eigh":
            return torch.linalg.eigh(op)
        if q == "eigvalsh":
            return op.eigvalsh()
        if q == "torch.eigvalsh":
            return torch.linalg.eigvalsh(op)
        if q == "svd":
            return op.svd()
        if q == "torch.svd":
            return torch.linalg.svd(op)
        return op.diagonalization(method=method)

    with settings_stack(cfg, n), Recorder(keep=("lanczos", "chol", "pchol"), clone=False) as rec, warnings.catch_warnings():
        warnings.simplefilter("ignore")
        out, ex = compare.attempt(call)
        if ex is None:
            # densify inside the settings block (lazy results may evaluate under the same configuration)
            try:
                if isinstance(out, tuple):
                    out = tuple(_dense(o).detach() if o is not None else None for o in out)
                else:
                    out = _dense(out).detach()
            except Exception as e:  # noqa: BLE001
                ex = compare.Exc(e)
    used_lanczos = rec.count("lanczos.end") > 0
    st = case.setdefault("_state", {})
    if part and st.get("lanczos"):
        # the whole was factorized through a Lanczos run: what its part answers now may be that run's (jittered, compressed) result,
        # served from the part's memo
        used_lanczos = True
    st["lanczos"] = st.get("lanczos", False) or used_lanczos
    used_pchol = rec.count("pchol.end") > 0 or method == "pivoted_cholesky"
    pathk = "lanczos" if used_lanczos else ("pchol" if used_pchol else "direct")
    ctx.stat("path:" + pathk)
    kw = dict(cls=spec["cls"], path=path, tags=set(tags) | {"path:" + pathk}, info=info)
    oname = q + (f"[{method}]" if method else "")
    if ex is not None:
        if compare.explicit_unsupported(ex):
            ctx.stat(f"unsupported:{spec['cls']}:{q}:{ex.frame}")
            return
        ctx.fail(oname, "exception", exc=ex, **kw)
        return
    key = f"{spec['cls']}|{oname}|{pathk}|{settings_key(cfg)}|{spec['dtype']}" + (f"|part:{part}" if part else "")
    eps = torch.finfo(dt).eps
    # relative to the matrix, but never below 1e-2: psd_safe_cholesky and the Lanczos post-processing add an ABSOLUTE jitter (1e-8 .. 1e-4),
    # so a matrix of norm 1e-9 (a rank-1 kernel column squared) cannot be reproduced to a relative tolerance
    scale = max(lam_max, 1e-2)
    kap = kappa if kappa != float("inf") else 1.0
    tol = min(2000 * eps * max(min(kap, 1e6), 1.0) + 200 * eps, 0.5)
    if zoo.spec_classes(spec) & {"Toeplitz", "Interpolated"}:
        tol = max(tol, compare.tol_fft(dt))
    if not kappa <= 1e8:
        # numerically singular PSD input: Cholesky-based results legitimately carry the documented diagonal jitter
        tol = max(tol, 1e-4 if compare.is64(dt) else 1e-3)  # up to 1e-4 relative: jitter levels 1e-8 .. 1e-6 over Kronecker products of small-norm factors

    def rel(X, Y, sc=scale):
        if tuple(X.shape) != tuple(Y.shape):
            # factors of a batch-broadcast operator may keep the smaller batch shape: the identities hold under broadcasting
            try:
                X, Y = torch.broadcast_tensors(X, Y)
            except RuntimeError:
                return float("inf")
        X = X.to(torch.float64)
        if not torch.isfinite(X).all():
            return float("inf")
        return float((X - Y).abs().max()) / sc

    def verdict(name, err, t, extra=None):
        if not err <= t:
            ctx.fail(oname, "value", err=err if err != float("inf") else None, detail=f"{name}: err {err:.3e} tol {t:.1e} kappa {kap:.1e}" + (f" {extra}" if extra else ""), **dict(kw, tags=set(kw["tags"]) | {name}))
            return False
        return True

    if q in ("cholesky", "torch.cholesky"):
        L = out.to(torch.float64)
        if tuple(L.shape) != tuple(A64.shape):
            ctx.fail(oname, "shape", detail=f"got {tuple(L.shape)}", **kw)
            return
        off = torch.tril(L, -1) if upper else torch.triu(L, 1)
        ok = verdict("triangular_in_requested_orientation", float(off.abs().max()) / (scale**0.5), 0.0 + 1e-300)
        rec_ = L.mT @ L if upper else L @ L.mT
        ok = verdict("reconstruction", rel(rec_, A64), tol) and ok
        if ok:
            ctx.ok(oname, key + f"|up{int(upper)}", n >= 2, sample=dict(spec=zoo.class_path(spec, 3), query=oname, upper=upper, err=rel(rec_, A64)))
        return
    if q == "root_inv_decomposition" and pathk == "lanczos" and part is None and dt == torch.float64 and kappa <= 100 and n >= 2 \
            and any((k_[0] if isinstance(k_, tuple) else k_) == "root_decomposition" for k_ in getattr(op, "_memoize_cache", {})):
        # the Lanczos run behind an inverse root leaves the ROOT of the operator in its cache: what root_decomposition() answers next
        with settings_stack(cfg, n), warnings.catch_warnings():
            warnings.simplefilter("ignore")
            side, exs = compare.attempt(lambda: _dense(op.root_decomposition().root).detach().to(torch.float64))
        ctx.stat("side_effect_roots_checked")
        sname = oname + ".side_root"
        if exs is not None:
            if not compare.explicit_unsupported(exs):
                ctx.fail(sname, "exception", exc=exs, **kw)
        elif side.dim() < 2 or tuple(side.shape[:-1]) != (*batch, n):
            ctx.fail(sname, "shape", detail=f"cached root of shape {tuple(side.shape)} for operator {tuple(A64.shape)}", **kw)
        elif not torch.isfinite(side).all():
            ctx.fail(sname, "value", detail="non-finite cached root", **kw)
        else:
            Us, Ss, _ = torch.linalg.svd(side, full_matrices=False)
            ks = (Ss > 1e-8 * Ss[..., :1].clamp_min(1e-300)).to(torch.float64)
            Ps = (Us * ks.unsqueeze(-2)) @ Us.mT
            es = float((side @ side.mT - Ps @ A64 @ Ps).abs().max()) / scale
            if not es <= 5e-2:
                ctx.fail(sname, "value", err=es, detail=f"the root cached by the inverse-root run differs from the compression of A onto its range by {es:.2e}", **kw)
            else:
                ctx.ok(sname, key, n >= 2)
    if q in ("root_decomposition", "root_inv_decomposition"):
        R = out.to(torch.float64)
        if R.dim() < 2 or R.shape[-2] != n or tuple(R.shape[:-2]) != tuple(batch):
            ctx.fail(oname, "shape", detail=f"root of shape {tuple(R.shape)} for operator {tuple(A64.shape)}", **kw)
            return
        G = R @ R.mT
        if q == "root_decomposition":
            target, sc = A64, scale
        else:
            if not lam_min > 0:
                return
            target, sc = torch.linalg.inv(A64), 1.0 / lam_min
        if pathk == "pchol":
            if not kappa <= 1e6 or dt == torch.float32:
                ctx.stat("pivoted_cholesky_on_singular_input(not judged here, see C10)")
                return
            # PSD under-approximation up to its rank and tolerance
            resid = target - G
            lmin = float(torch.linalg.eigvalsh((resid + resid.mT) / 2)[..., 0].min()) / sc
            ok = verdict("psd_residual", max(0.0, -lmin), 10 * tol + 1e-6)
            if ok and R.shape[-1] >= n:
                ok = verdict("reconstruction_at_full_rank", rel(G, target, sc), 10 * tol + 1e-3)
            if ok:
                ctx.ok(oname, key, n >= 2)
            return
        if pathk == "lanczos":
            if dt == torch.float32 or not kappa <= 100:
                ctx.stat("lanczos_path_ill_conditioned(inconclusive)")
                return
            tl = 5e-3 * kap if q == "root_inv_decomposition" else 5e-3
            if not torch.isfinite(R).all():
                # (non-finite roots: reported under the reconstruction verdict; the rank / QR below cannot be evaluated)
                verdict("reconstruction_at_full_krylov_rank", float("inf"), tl, extra="non-finite root")
                return
            # orthogonal compression onto the space the root spans
            Qr, _ = torch.linalg.qr(R)
            rk = torch.linalg.matrix_rank(R)
            full = bool((rk == n).all()) if torch.is_tensor(rk) else rk == n
            # re-orthogonalisation threshold 1e-5 and relative tridiagonal jitter 1e-6: gross errors only
            tl = 5e-3 * kap if q == "root_inv_decomposition" else 5e-3
            if full:
                ok = verdict("reconstruction_at_full_krylov_rank", rel(G, target, sc), tl)
            else:
                # columns of Qr beyond the numerical rank are arbitrary: project with the SVD basis instead
                U, S, _ = torch.linalg.svd(R, full_matrices=False)
                keep = (S > 1e-8 * S[..., :1]).to(torch.float64)
                Pm = (U * keep.unsqueeze(-2)) @ U.mT
                if q == "root_decomposition":
                    comp = Pm @ A64 @ Pm
                else:
                    # inverse of the compression of A on that subspace
                    comp = torch.linalg.pinv(Pm @ A64 @ Pm, hermitian=True, rtol=1e-10)
                ok = verdict("compression_onto_spanned_space", rel(G, comp, sc), tl * 10)
            if ok:
                ctx.ok(oname, key + f"|full{int(full)}", n >= 2, sample=dict(spec=zoo.class_path(spec, 3), query=oname, full_rank=full, err=rel(G, target, sc)))
            return
        t = tol if q == "root_decomposition" else min(tol * max(kap, 1.0), 0.5)
        if method in ("symeig", "diagonalization", "svd") and q == "root_inv_decomposition":
            t = max(t, 1e-6)  # eigenvalues are clamped at 1e-7 by the method itself
        if verdict("reconstruction", rel(G, target, sc), t):
            ctx.ok(oname, key, n >= 2, sample=dict(spec=zoo.class_path(spec, 3), query=oname, err=rel(G, target, sc)))
        return
    if q in ("eigvalsh", "torch.eigvalsh"):
        w = out.to(torch.float64)
        if tuple(w.shape) != tuple(evA.shape):
            ctx.fail(oname, "shape", detail=f"got {tuple(w.shape)} want {tuple(evA.shape)}", **kw)
            return
        if verdict("eigenvalues", float((torch.sort(w, -1)[0] - evA).abs().max()) / scale, tol):
            ctx.ok(oname, key, n >= 2)
        return
    if q in ("eigh", "torch.eigh", "diagonalization"):
        if not isinstance(out, tuple) or len(out) != 2:
            ctx.fail(oname, "type", detail=str(type(out)), **kw)
            return
        w, Q = out[0].to(torch.float64), out[1].to(torch.float64)
        if w.shape[-1] != Q.shape[-1] or Q.shape[-2] != n:
            ctx.fail(oname, "shape", detail=f"w {tuple(w.shape)} Q {tuple(Q.shape)}", **kw)
            return
        k = Q.shape[-1]
        I = torch.eye(k, dtype=torch.float64)
        if pathk == "lanczos":
            if dt == torch.float32 or not kappa <= 100:
                ctx.stat("lanczos_path_ill_conditioned(inconclusive)")
                return
            ok = verdict("orthonormal_columns", rel(Q.mT @ Q, I.expand(*batch, k, k), 1.0), 1e-4)
            Pm = Q @ Q.mT
            ok = verdict("compression_onto_spanned_space", rel((Q * w.unsqueeze(-2)) @ Q.mT, Pm @ A64 @ Pm), 5e-3) and ok
        else:
            ok = verdict("orthonormal_columns", rel(Q.mT @ Q, I.expand(*batch, k, k), 1.0), max(tol, 100 * eps))
            ok = verdict("reconstruction", rel((Q * w.unsqueeze(-2)) @ Q.mT, A64), tol) and ok
        if ok:
            ctx.ok(oname, key, n >= 2, sample=dict(spec=zoo.class_path(spec, 3), query=oname, path=pathk))
        return
    if q in ("svd", "torch.svd"):
        if not isinstance(out, tuple) or len(out) != 3:
            ctx.fail(oname, "type", detail=str(type(out)), **kw)
            return
        U, S, V = (o.to(torch.float64) for o in out)
        if q == "torch.svd":
            V = V.mT  # torch.linalg.svd returns Vh
        k = S.shape[-1]
        I = torch.eye(k, dtype=torch.float64)
        ok = verdict("singular_values_nonnegative", max(0.0, -float(S.min())) / scale, tol)
        ok = verdict("U_orthonormal", rel(U.mT @ U, I.expand(*batch, k, k), 1.0), max(tol, 100 * eps)) and ok
        ok = verdict("V_orthonormal", rel(V.mT @ V, I.expand(*batch, k, k), 1.0), max(tol, 100 * eps)) and ok
        ok = verdict("reconstruction", rel((U * S.unsqueeze(-2)) @ V.mT, A64), tol) and ok
        if ok:
            ctx.ok(oname, key, n >= 2)
        return
