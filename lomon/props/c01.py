"""C01 - every operator acts as the dense matrix it represents (DESIGN 5, C01)."""
import torch

from .. import compare, model, zoo
from . import common

BUDGET = {"quick": dict(seconds=40, cases=100000), "thorough": dict(seconds=480, cases=10**9)}
RULE = ("cases: seeded typed operator specs (every class at the root, nestings to depth 3 quick / 4 thorough, sizes 1..8, "
        "batch shapes incl. broadcasting, f32/f64) x observations {to_dense, matmul, @, rmatmul (X @ op), mT @, mT.to_dense, "
        "shape attributes} x rhs kinds; oracle: torch.matmul on the dense matrix built from the same raw tensors, plus "
        "denote(live constructor args). distinct key = (class path to depth 2, observation, rhs kind, dtype, batch rank); "
        "non-trivial = n >= 2 and non-zero rhs [zoo: block operators with the block dimension anywhere among the batch dimensions (block_dim down to -5); ConstantMul constants with broadcasting batch shapes; Root over non-triangular factors]")
ASSUMPTIONS = ["torch.matmul / indexing on dense tensors is the specification", "lomon/model.py denotation table",
               "tolerances of lomon/compare.py (structural 1e-10 f64 / 2e-4 f32)"]
REQUIRED_STATS = ("built",)

PINNED = []


def gen_cases(ctx):
    rng = ctx.rng
    i = 0
    maxdepth = 3 if ctx.tier == "quick" else 4
    classes = list(zoo.ALL_CLASSES)
    while True:
        root = classes[(i + ctx.shard) % len(classes)]
        i += 1
        nested_zero = rng.random() < 0.03
        zoo.NESTED_ZERO[0] = nested_zero
        spec = common.random_spec(rng, root=root, maxdepth=maxdepth)
        zoo.NESTED_ZERO[0] = False
        yield dict(spec=spec, rseed=rng.randrange(1 << 30))


def _cmp(ctx, oracle, got, ref, tol, key, info, nontrivial=True):
    tags = info["tags"]
    kw = dict(cls=info["cls"], path=info["path"], tags=tags, info=info["info"])
    if not torch.is_tensor(got) and hasattr(got, "to_dense"):
        # the specialised result type is not judged: an operator result is densified
        got, ex = compare.attempt(got.to_dense)
        if ex:
            ctx.fail(oracle, "exception", exc=ex, **kw)
            return
    if not torch.is_tensor(got):
        ctx.fail(oracle, "type", detail=type(got).__name__, **kw)
        return
    if tuple(got.shape) != tuple(ref.shape):
        ctx.fail(oracle, "shape", detail=f"got {tuple(got.shape)} want {tuple(ref.shape)}", **kw)
        return
    err = compare.relerr(got, ref)
    if not err <= tol:
        ctx.fail(oracle, "value", err=err, **kw)
        return
    ctx.ok(oracle, key, nontrivial, sample=dict(spec=zoo.class_path(info["spec"], 3), obs=oracle, shape=list(ref.shape), err=err),
           near=dict(oracle=oracle, path=info["path"], err=err, tol=tol) if err > tol / 10 else None)


def run_case(case, ctx):
    spec = case["spec"]
    col = observe(spec, case["rseed"])
    if col is None:
        ctx.stat("build_rejected:" + spec["cls"])
        return
    ctx.stat("built")
    ctx.stat("root:" + spec["cls"])
    common.flush_with_blame(col, ctx, spec, lambda s: observe(s, case["rseed"]) or common.Collector())


def observe(spec, rseed):
    import random

    ctx = common.Collector()
    b = common.try_build(spec, ctx)
    if b is None:
        return None
    rng = random.Random(rseed)
    op, dense = b.op, b.dense
    n, m, batch = spec["n"], spec["m"], spec["batch"]
    tags = common.spec_tags(spec)
    path = zoo.class_path(spec, 2)
    sinfo = common.spec_info(spec)
    info = dict(cls=spec["cls"], path=path, tags=tags, spec=spec, info=sinfo)
    tol = common.spec_tol(spec)
    nontriv = n >= 2
    kb = f"{path}|{spec['dtype']}|b{len(batch)}"

    def exc_fail(oracle, ex, extra=()):
        ctx.fail(oracle, "exception", cls=spec["cls"], path=path, exc=ex, tags=tags, info=set(sinfo) | set(extra))

    # shape attributes
    want_shape = tuple(dense.shape)
    attrs = dict(shape=lambda: tuple(op.shape), size=lambda: tuple(op.size()), dim=lambda: op.dim(),
                 batch_shape=lambda: tuple(op.batch_shape), matrix_shape=lambda: tuple(op.matrix_shape),
                 numel=lambda: op.numel(), size_m1=lambda: op.size(-1), ndimension=lambda: op.ndimension())
    want = dict(shape=want_shape, size=want_shape, dim=len(want_shape), batch_shape=want_shape[:-2],
                matrix_shape=want_shape[-2:], numel=dense.numel(), size_m1=want_shape[-1], ndimension=len(want_shape))
    for k, f in attrs.items():
        got, ex = compare.attempt(f)
        if ex:
            exc_fail("attr." + k, ex)
        elif got != want[k]:
            ctx.fail("attr." + k, "shape", cls=spec["cls"], path=path, tags=tags, detail=f"got {got} want {want[k]}")
        else:
            ctx.ok("attr." + k, kb, nontriv)
    # dtype
    if op.dtype != dense.dtype:
        ctx.fail("attr.dtype", "dtype", cls=spec["cls"], path=path, tags=tags, detail=f"{op.dtype} vs {dense.dtype}")
    else:
        ctx.ok("attr.dtype", kb, nontriv)
    # the live object's stored constructor arguments still denote the matrix
    dl, ex = compare.attempt(model.denote, op)
    if ex is None:
        _cmp(ctx, "denote_live", dl, dense, tol, kb, info, nontriv)
    elif ex.type != "Unknown":
        ctx.stat("denote_error:" + ex.type)
    # to_dense
    got, ex = compare.attempt(op.to_dense)
    if ex:
        exc_fail("to_dense", ex)
    else:
        _cmp(ctx, "to_dense", got, dense, tol, kb, info, nontriv)
    # transposes
    for nm, f in (("mT.to_dense", lambda: op.mT.to_dense()), ("transpose(-1,-2).to_dense", lambda: op.transpose(-1, -2).to_dense()),
                  ("T_or_mT.shape", lambda: torch.zeros(tuple(op.mT.shape)))):
        got, ex = compare.attempt(f)
        ref = dense.mT if "shape" not in nm else torch.zeros(tuple(dense.mT.shape))
        if ex:
            exc_fail(nm, ex)
        else:
            _cmp(ctx, nm, got, ref, tol, kb, info, nontriv)
    # products
    rk = ["vec", "mat", "mat1", "batched", "bcast_more", "bcast_one"]
    rng.shuffle(rk)
    for kind in rk[:3]:
        rhs, _ = zoo.rhs_tensor(rng, m, batch, spec["dtype"], kindhint=kind)
        if rhs.dtype != dense.dtype:
            rhs = rhs.to(dense.dtype)
        ref = torch.matmul(dense, rhs)
        key = f"{kb}|{kind}"
        for nm, f in (("matmul", lambda: op.matmul(rhs)), ("@", lambda: op @ rhs), ("torch.matmul", lambda: torch.matmul(op, rhs))):
            got, ex = compare.attempt(f)
            if ex:
                exc_fail(nm, ex, {"rhs:" + kind})
            else:
                i2 = dict(info, info=set(sinfo) | {"rhs:" + kind})
                _cmp(ctx, nm, got, ref, tol, key, i2, nontriv)
        # transpose product
        rhs_t, _ = zoo.rhs_tensor(rng, n, batch, spec["dtype"], kindhint=kind)
        rhs_t = rhs_t.to(dense.dtype)
        ref_t = torch.matmul(dense.mT, rhs_t)
        got, ex = compare.attempt(lambda: op.mT @ rhs_t)
        if ex:
            exc_fail("mT@", ex, {"rhs:" + kind})
        else:
            _cmp(ctx, "mT@", got, ref_t, tol, key, dict(info, info=set(sinfo) | {"rhs:" + kind}), nontriv)
        # left product X @ op, X (..., k, n)
        if kind != "vec":
            lhs = rhs_t.mT
        else:
            lhs = rhs_t
        ref_l = torch.matmul(lhs, dense)
        for nm, f in (("X@op", lambda: lhs @ op), ("rmatmul", lambda: op.rmatmul(lhs))):
            got, ex = compare.attempt(f)
            if ex:
                exc_fail(nm, ex, {"rhs:" + kind})
            else:
                _cmp(ctx, nm, got, ref_l, tol, key, dict(info, info=set(sinfo) | {"rhs:" + kind}), nontriv)
    return ctx


def coverage_extra(tot):
    roots = {k[5:]: v for k, v in tot["stats"].items() if k.startswith("root:")}
    rej = {k: v for k, v in tot["stats"].items() if k.startswith("build_rejected")}
    return dict(root_class_reach=roots, constructor_rejections=rej, classes_never_built=[c for c in zoo.ALL_CLASSES if c not in roots])


def finish(ctx):
    # thorough tier, shard 0: the repository's own test-suite as a second workload under this property's monitor
    from .. import suite

    suite.ingest(ctx, "denote", "suite.denote")
