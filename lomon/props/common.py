"""Helpers shared by the property drivers."""
import torch

from .. import compare, zoo

SIZES = [1, 2, 3, 4, 5, 6, 8]
BATCHES = [[], [], [], [2], [1], [3, 2], [2, 1]]


def batch_member_degenerate(spec, rtol=1e-6):
    """does any square symmetric node of the spec tree with batch dimensions have a member with a (numerically) repeated eigenvalue?
    A batched Lanczos run on such a node has members that exhaust their Krylov spaces at different steps (see the C06 / C09 findings).
    Evaluated lazily, on failure paths only (rebuilds the sub-operators)."""
    import torch

    from .. import zoo

    def walk(s):
        try:
            d = zoo.build(s).dense
            if d.dim() > 2 and d.shape[-1] == d.shape[-2] and d.shape[-1] >= 2 and d.dtype.is_floating_point:
                d = d.to(torch.float64)
                if float((d - d.mT).abs().max()) <= 1e-6 * (float(d.abs().max()) + 1e-300):
                    ev = torch.linalg.eigvalsh((d + d.mT) / 2)
                    gap = (ev[..., 1:] - ev[..., :-1]).abs().amin(-1)
                    if bool((gap <= rtol * ev.abs().amax(-1).clamp_min(1e-300)).any()):
                        return True
        except Exception:  # noqa: BLE001
            pass
        return any(walk(c) for c in s["children"])

    return walk(spec)


def spec_tags(spec):
    tags = set()

    def walk(s, depth):
        if s["cls"] == "Chol" and s["opt"].get("upper"):
            tags.add("chol_upper")
        if s["cls"] == "Zero" and depth > 0:
            tags.add("nested_zero")
        if s["cls"] == "TransposePermutation" and depth > 0:
            tags.add("nested_tperm")
        if s["cls"] == "Cat" and s["opt"].get("mode") == "cat" and s["opt"].get("dim") == -3:
            tags.add("cat_along_last_batch_dim")
        if s["cls"] == "Cat" and s["opt"].get("mode") == "cat" and s["opt"].get("dim", 0) <= -3:
            tags.add("cat_along_batch_dim")
        if s["cls"] == "Kron" and s["n"] == s["m"] and any(c["n"] != c["m"] for c in s["children"]):
            tags.add("kron_rect_factors")
        if s["cls"] == "KronAddedDiag" and s["children"][1]["cls"] == "KronDiag":
            tags.add("kron_plus_krondiag")
        for c in s["children"]:
            walk(c, depth + 1)

    walk(spec, 0)
    return tags


def spec_info(spec):
    info = {spec["dtype"]}
    if spec["batch"]:
        info.add("batched")
    if spec["n"] == 1 or spec["m"] == 1:
        info.add("size1")
    return info


def try_build(spec, ctx):
    """build, or None when the library's own constructors reject the nesting (counted, not judged)"""
    try:
        return zoo.build(spec)
    except Exception as e:  # noqa: BLE001
        ex = compare.Exc(e)
        ctx.stat(f"build_rejected:{spec['cls']}:{ex.type}:{ex.frame}")
        return None


def random_spec(rng, kinds=("rect", "square", "sym", "psd", "pd", "tril", "triu"), sizes=SIZES, batches=BATCHES,
                maxdepth=3, dtypes=("f64", "f64", "f32"), root=None, **kw):
    for _ in range(50):
        kind = rng.choice(kinds)
        n = rng.choice(sizes)
        m = rng.choice(sizes) if kind == "rect" else n
        batch = rng.choice(batches)
        dtype = rng.choice(dtypes)
        r = root if root is not None else rng.choice(zoo.ALL_CLASSES)
        s = zoo.gen_spec(rng, kind, n, m, batch, depth=rng.randint(1, maxdepth), dtype=dtype, root=r, **kw)
        if s is not None:
            return s
    return zoo.gen_spec(rng, "square", 4, 4, [], depth=1, dtype="f64", root="Dense")


def spec_tol(spec, dtype=None):
    """structural tolerance, relaxed for nestings whose construction involves a factorization or FFT"""
    cl = zoo.spec_classes(spec)
    dt = zoo.DT[spec["dtype"]] if dtype is None else dtype
    if cl & {"Mul"}:
        return 1e-8 if compare.is64(dt) else 2e-3
    if cl & {"Toeplitz", "Interpolated"}:
        return compare.tol_fft(dt)
    return compare.tol_structural(dt)


def describe(t):
    if torch.is_tensor(t):
        return f"Tensor{tuple(t.shape)}:{str(t.dtype).replace('torch.', '')}"
    return type(t).__name__ + (str(tuple(t.shape)) if hasattr(t, "shape") else "")


class Collector:
    """buffers verdicts of one spec so that failures can be attributed (blamed) to the smallest failing
    sub-spec before they are reported"""

    def __init__(self):
        self.oks = []
        self.fails = []
        self.stats = []

    def ok(self, *a, **k):
        self.oks.append((a, k))

    def fail(self, oracle, mode, **k):
        self.fails.append((oracle, mode, k))

    def stat(self, name, k=1):
        self.stats.append((name, k))

    def inconclusive(self, why):
        self.stats.append(("inconclusive:" + why, 1))

    @staticmethod
    def sig(oracle, mode, k):
        ex = k.get("exc")
        return (oracle, mode, ex.type if ex else "", ex.frame if ex else "")

    def sigs(self):
        return {self.sig(o, m, k) for o, m, k in self.fails}


def flush_with_blame(col, ctx, spec, observe, max_probe=12):
    """observe(sub_spec) -> Collector.  Failures of `spec` are re-attributed to the deepest child sub-spec that
    fails alone with the same signature (oracle, mode, exception type, frame)."""
    for a, k in col.oks:
        ctx.ok(*a, **k)
    for name, k in col.stats:
        ctx.stat(name, k)
    cache = {}
    probes = [0]

    def child_sigs(s):
        key = id(s)
        if key not in cache:
            probes[0] += 1
            try:
                cache[key] = observe(s).sigs()
            except Exception:  # noqa: BLE001
                cache[key] = set()
        return cache[key]

    for oracle, mode, k in col.fails:
        sig = Collector.sig(oracle, mode, k)
        cur = spec
        while probes[0] < max_probe:
            nxt = None
            for c in cur["children"]:
                if sig in child_sigs(c):
                    nxt = c
                    break
            if nxt is None:
                break
            cur = nxt
        if cur is not spec:
            k = dict(k, cls=cur["cls"], path=zoo.class_path(cur, 2), tags=set(k.get("tags") or ()) and spec_tags(cur),
                     info=set(k.get("info") or ()) | {"blamed_from:" + spec["cls"]})
        ctx.fail(oracle, mode, **k)
