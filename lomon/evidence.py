"""Evidence writer (validated against EVIDENCE.schema.json when jsonschema is importable)."""
import json
import os

from .env import VERIF

SCHEMA = "/root/.vp/EVIDENCE.schema.json"


def write(prop, tier, seed, coverage, wall_s, violations, assumptions, extra=None):
    doc = dict(
        property_id=prop,
        tier=tier,
        seed=int(seed),
        level="exploration",
        coverage=coverage,
        assumptions=assumptions,
        wall_s=round(float(wall_s), 2),
        violations=int(violations),
    )
    if extra:
        doc.update(extra)
    # VERIF_EVIDENCE_DIR: scratch location used when a seeded change is applied to /repo (the committed evidence describes the unchanged tree)
    edir = os.environ.get("VERIF_EVIDENCE_DIR") or os.path.join(VERIF, "evidence")
    os.makedirs(edir, exist_ok=True)
    path = os.path.join(edir, f"{prop}.json")
    os.makedirs(os.path.dirname(path), exist_ok=True)
    tmp = path + ".tmp"
    with open(tmp, "w") as f:
        json.dump(doc, f, indent=1, sort_keys=True, default=str)
    os.replace(tmp, path)
    try:
        import jsonschema

        if os.path.exists(SCHEMA):
            jsonschema.validate(doc, json.load(open(SCHEMA)))
    except ImportError:
        pass
    return path
