"""Spawn shard workers, aggregate, classify against known findings, write evidence, print verdict lines."""
import argparse
import collections
import importlib
import json
import os
import shutil
import subprocess
import sys
import time

from . import evidence, findings
from .env import PY, VERIF


def merge(docs):
    tot = dict(evals=0, keys=collections.Counter(), oracles=collections.Counter(), stats=collections.Counter(),
               fail_n=collections.Counter(), fail_keep={}, samples=[], near=[], inconcl=collections.Counter(),
               ncases=0, wall=0.0, done=collections.Counter())
    for d in docs:
        tot["evals"] += d["evals"]
        for k in ("keys", "oracles", "stats", "fail_n", "inconcl"):
            tot[k].update(d[k])
        for fp, rec in d["fail_keep"].items():
            tot["fail_keep"].setdefault(fp, rec)
        tot["samples"] += d["samples"][:2]
        tot["near"] += d["near"][:3]
        tot["ncases"] += d["ncases"]
        tot["wall"] = max(tot["wall"], d["wall"])
        tot["done"][d["done"]] += 1
    return tot


def main(argv=None):
    ap = argparse.ArgumentParser()
    ap.add_argument("prop")
    ap.add_argument("--tier", default=os.environ.get("VERIF_TIER", "quick"))
    ap.add_argument("--replay")
    ap.add_argument("--jobs", type=int, default=int(os.environ.get("VERIF_JOBS", "16")))
    ap.add_argument("--seed", type=int, default=int(os.environ.get("VERIF_SEED", "0")))
    ap.add_argument("--keep", action="store_true")
    ap.add_argument("--census", action="store_true", help="write all failing fingerprints to .run/census-<prop>.txt")
    a = ap.parse_args(argv)
    prop = a.prop.upper()
    env = dict(os.environ, PYTHONHASHSEED="0", OMP_NUM_THREADS="1", MKL_NUM_THREADS="1", LINEAR_OPERATOR_VERIF="1",
               PYTHONPATH=VERIF + os.pathsep + os.environ.get("PYTHONPATH", ""))
    if a.replay:
        return subprocess.call([PY, "-m", "lomon.worker", "--replay", prop, a.replay], cwd=VERIF, env=env)
    mod = importlib.import_module(f"lomon.props.{prop.lower()}")
    tier = a.tier if a.tier in ("quick", "thorough") else "quick"
    budget = mod.BUDGET[tier]
    t0 = time.time()
    rundir = os.path.join(VERIF, ".run", f"{prop}-{tier}-{os.getpid()}")
    os.makedirs(rundir, exist_ok=True)
    n = max(1, min(a.jobs, budget.get("shards", 16)))
    procs = []
    for s in range(n):
        out = os.path.join(rundir, f"shard{s}.json")
        log = open(os.path.join(rundir, f"shard{s}.log"), "w")
        p = subprocess.Popen([PY, "-m", "lomon.worker", prop, tier, str(a.seed), str(s), str(n), out], cwd=VERIF,
                             env=env, stdout=log, stderr=subprocess.STDOUT)
        procs.append((p, out, log))
    deadline = t0 + budget["seconds"] * 4 + 300  # generous wall-clock watchdog: firing = inconclusive
    killed = 0
    for p, out, log in procs:
        try:
            p.wait(timeout=max(1.0, deadline - time.time()))
        except subprocess.TimeoutExpired:
            p.kill()
            killed += 1
        log.close()
    docs, crashed = [], []
    for i, (p, out, log) in enumerate(procs):
        if os.path.exists(out):
            docs.append(json.load(open(out)))
        else:
            tail = open(os.path.join(rundir, f"shard{i}.log")).read()[-1500:]
            crashed.append((i, p.returncode, tail))
    tot = merge(docs)
    known = findings.load()
    seen_known = collections.Counter()
    viol = []
    for fp, rec in sorted(tot["fail_keep"].items()):
        k = rec.get("known")
        if k is None:
            viol.append((fp, rec))
        else:
            seen_known[k] += tot["fail_n"][fp]
    os.makedirs(os.path.join(VERIF, ".run"), exist_ok=True)
    with open(os.path.join(VERIF, ".run", f"unlisted-{prop}.jsonl"), "a") as f:
        for fp, rec in viol:
            f.write(json.dumps(dict(fingerprint=fp, count=tot["fail_n"][fp], seed=a.seed, tier=tier, **rec), default=str) + "\n")
    if a.census:
        with open(os.path.join(VERIF, ".run", f"census-{prop}.txt"), "w") as f:
            for fp, rec in sorted(tot["fail_keep"].items(), key=lambda x: -tot["fail_n"][x[0]]):
                brief = {k: rec.get(k) for k in ("oracle", "mode", "cls", "path", "exc", "frame", "msg", "err", "tags", "info", "detail", "known") if rec.get(k) not in (None, "", [])}
                f.write(f"{tot['fail_n'][fp]:6d} " + json.dumps(brief, default=str)[:600] + "\n")
        with open(os.path.join(VERIF, ".run", f"census-{prop}.jsonl"), "w") as f:
            for fp, rec in sorted(tot["fail_keep"].items(), key=lambda x: -tot["fail_n"][x[0]]):
                f.write(json.dumps(dict(fingerprint=fp, count=tot["fail_n"][fp], **rec), default=str) + "\n")
    # replay witnesses
    erel = os.path.relpath(os.environ.get("VERIF_EVIDENCE_DIR") or os.path.join(VERIF, "evidence"), VERIF)
    rdir = os.path.join(VERIF, erel, "replay")
    os.makedirs(rdir, exist_ok=True)
    for f in os.listdir(rdir):
        if f.startswith(prop + "-"):
            os.remove(os.path.join(rdir, f))
    lines = []
    for i, (fp, rec) in enumerate(viol[:20]):
        path = os.path.join(erel, "replay", f"{prop}-{i:02d}.json")
        with open(os.path.join(VERIF, path), "w") as f:
            json.dump(dict(fingerprint=fp, count=tot["fail_n"][fp], **rec), f, indent=1, default=str)
        lines.append(f"VIOLATION property={prop} replay={path}")
        brief = {k: rec.get(k) for k in ("oracle", "mode", "cls", "path", "exc", "frame", "msg", "err", "tags", "info", "detail") if rec.get(k) not in (None, "", [])}
        lines.append("  " + json.dumps(brief, default=str)[:400] + f"  x{tot['fail_n'][fp]}")
    for k, cnt in sorted(seen_known.items()):
        print(f"KNOWN-FINDING: property={prop} {known[k]['text']} (observed {cnt}x)")
    for k, f in enumerate(known):
        if f["prop"] == prop and k not in seen_known:
            print(f"KNOWN-FINDING: property={prop} {f['text']} (not observed in this run)")
    inconclusive = []
    if crashed:
        inconclusive.append(f"{len(crashed)} shard(s) died: " + "; ".join(f"#{i} rc={rc}: {t[-300:]!r}" for i, rc, t in crashed[:2]))
    if killed:
        inconclusive.append(f"{killed} shard(s) killed by the watchdog")
    if tot["inconcl"]:
        n_inc = sum(tot["inconcl"].values())
        if n_inc > max(5, 0.02 * max(tot["ncases"], 1)):
            inconclusive.append(f"{n_inc} inconclusive cases: {dict(tot['inconcl'].most_common(4))}")
    need = getattr(mod, "REQUIRED_STATS", ())
    for s in need:
        if tot["stats"].get(s, 0) == 0:
            inconclusive.append(f"deciding monitor never reached: {s}")
    wall = time.time() - t0
    nontriv = len(tot["keys"])
    if tot["evals"] == 0 or nontriv < 2:
        inconclusive.append("no oracle evaluations")
    cov = dict(
        evaluations=tot["evals"],
        distinct_nontrivial=nontriv,
        rule=mod.RULE,
        samples=tot["samples"][:8] or [dict(note="no sample retained")],
        cases=tot["ncases"],
        shards=n,
        shards_finished_by=dict(tot["done"]),
        oracle_evaluations=dict(tot["oracles"]),
        stats=dict(sorted(tot["stats"].items())),
        near_miss=tot["near"][:20],
        inconclusive=dict(tot["inconcl"].most_common(10)),
        inconclusive_run=inconclusive,
        known_findings_observed={known[k]["text"]: c for k, c in seen_known.items()},
        distinct_failure_fingerprints=len(tot["fail_keep"]),
        unlisted_violation_fingerprints=len(viol),
    )
    extra_cov = getattr(mod, "coverage_extra", None)
    if extra_cov:
        cov.update(extra_cov(tot))
    evidence.write(prop, tier, a.seed, cov, wall, len(viol), getattr(mod, "ASSUMPTIONS", []))
    if not a.keep:
        shutil.rmtree(rundir, ignore_errors=True)
    for ln in lines:
        print(ln)
    print(f"{prop} {tier}: {tot['evals']} oracle evaluations over {tot['ncases']} cases, {nontriv} distinct non-trivial keys, "
          f"{len(tot['fail_keep'])} failing fingerprints ({len(viol)} unlisted), {wall:.0f}s")
    if viol:
        return 1
    if inconclusive:
        print("INCONCLUSIVE: " + " | ".join(inconclusive))
        return 2
    return 0


if __name__ == "__main__":
    sys.exit(main())
