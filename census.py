#!/venv/bin/python
"""Triage helper: ./census.py C01 -> compact grouping of .run/census-C01.txt (development aid, not a check)."""
import collections
import json
import sys

prop = sys.argv[1]
width = int(sys.argv[2]) if len(sys.argv) > 2 else 260
groups = collections.defaultdict(lambda: dict(n=0, oracles=set(), paths=set(), ex=None))
for ln in open(f"/verif/.run/census-{prop}.txt"):
    n, _, js = ln.strip().partition(" ")
    try:
        r = json.loads(js)
    except Exception:
        continue
    key = (r.get("mode"), r.get("exc", ""), r.get("frame", ""), r.get("cls"), tuple(r.get("tags", [])), r.get("known"))
    if len(sys.argv) > 4:
        key = (r.get("oracle"),) + key
    g = groups[key]
    g["n"] += int(n)
    g["oracles"].add(r.get("oracle"))
    g["paths"].add(r.get("path"))
    g["ex"] = g["ex"] or {k: r.get(k) for k in ("msg", "err", "detail", "info") if r.get(k) is not None}
maxl = int(sys.argv[3]) if len(sys.argv) > 3 else 40
shown = 0
for key, g in sorted(groups.items(), key=lambda x: -x[1]["n"]):
    if key[-1] is not None:
        continue
    shown += 1
    if shown > maxl:
        break
    print(f"{g['n']:6d} {key} oracles={sorted(g['oracles'])[:8]} paths={sorted(g['paths'])[:3]} {json.dumps(g['ex'])}"[:width])
