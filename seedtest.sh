#!/bin/sh
# development aid: ./seedtest.sh <patch.diff> "C01 C04" [seeds]  -> applies the seeded change to /repo, runs the quick checks, reverts
# (the change is never committed to /repo)
patch="$1"; props="$2"; seeds="${3:-0}"
cd /repo || exit 2
if [ -n "$(git status --porcelain --untracked-files=no)" ]; then echo "/repo is dirty: commit first"; exit 2; fi
git apply "$patch" || { echo "patch does not apply"; exit 2; }
trap 'git -C /repo checkout -- .' EXIT INT TERM
for p in $props; do
  for s in $seeds; do
    out=$(VERIF_EVIDENCE_DIR=/verif/.run/seed-evidence /verif/check "$p" --tier quick --seed "$s" 2>&1)
    n=$(printf '%s\n' "$out" | grep -c '^VIOLATION')
    inc=$(printf '%s\n' "$out" | grep -c '^INCONCLUSIVE')
    echo "$p seed=$s violations=$n inconclusive=$inc :: $(printf '%s\n' "$out" | grep -A1 '^VIOLATION' | grep -v '^VIOLATION' | head -2 | cut -c1-330 | tr '\n' ' ')"
  done
done
