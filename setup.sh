#!/bin/sh
# MANIFEST.setup_cmd: offline; vendors optional helpers (jsonschema for evidence self-validation, icontract) into .deps/.
# Every check also works if this was never run (the helpers are optional).
cd "$(dirname "$0")" || exit 1
mkdir -p .deps .run evidence/replay
if [ ! -d .deps/jsonschema ]; then
  /venv/bin/pip install --quiet --no-index --find-links /opt/veriftools/wheels --target .deps jsonschema icontract >/dev/null 2>&1 || echo "setup: optional helpers not installed (continuing)"
fi
/venv/bin/python -c "import sys; sys.path.insert(0,'.'); from lomon import env; env.setup(); print('lomon ready: linear_operator from', env.REPO)"
