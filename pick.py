#!/venv/bin/python
"""dev aid: ./pick.py C01 'substr' [k] -> writes .run/pick.json (k-th census record whose json contains substr) and replays it"""
import json, subprocess, sys
prop, sub = sys.argv[1], sys.argv[2]
k = int(sys.argv[3]) if len(sys.argv) > 3 else 0
hits = [ln for ln in open(f"/verif/.run/census-{prop}.jsonl") if all(s in ln for s in sub.split("&&"))]
print(len(hits), "matching records")
rec = json.loads(hits[k])
json.dump(rec, open("/verif/.run/pick.json", "w"))
print(json.dumps(rec["case"])[:int(sys.argv[4]) if len(sys.argv)>4 else 600])
out = subprocess.run(["/verif/check", prop, "--replay", "/verif/.run/pick.json"], capture_output=True, text=True).stdout.splitlines()
for ln in out[:2] + out[-1:]:
    print(ln[:700])
