#!/usr/bin/env python3
"""Regenerates MANIFEST.json from the table below (keeps it schema-valid at all times)."""
import json, os
HERE = os.path.dirname(os.path.abspath(__file__))
BASE = json.load(open("/root/.vp/BASELINE.json"))
CLAIMED = {
    "C01": ("reference-model monitor: every observation of matmul / rmatmul / transpose / to_dense / shape on generated operators (all classes, nestings, batch and rhs broadcasting kinds) is compared with torch.matmul on the dense matrix built from the same raw tensors and with the denotation of the live constructor arguments",
            "runtime monitoring: reference-model (dense denotation) monitor over generated operator trees"),
}
CLAIMED["C03"] = ("reference-model monitor: op[index] and diagonal() for index tuples drawn from the property's grammar on every class and nestings, compared with torch indexing of the dense matrix; explicit not-supported errors accepted; failing cases shrunk before fingerprinting",
                  "runtime monitoring: reference-model monitor (torch indexing of the dense denotation) with case shrinking")
CLAIMED["C17"] = ("history checker: random well-nested construct/enter/exit/exception-exit histories over every settings class; after every event the public value of every setting is compared with a scoped-stack model, and a computation outside the block is compared before/after; every other property's worker additionally asserts 'all settings at defaults' after each case",
                  "runtime monitoring: event-history checker against a scoped-stack model of the settings")
CLAIMED["C16"] = ("reference-model monitor: psd_safe_cholesky (function, settings-supplied parameters, DenseLinearOperator.cholesky) on PD / singular / indefinite / NaN matrices in mixed batches; per member the observed perturbation L L^T - A must be delta*I with delta the minimal jitter level of an independent single-member loop; warning / NanError / NotPSDError exactly when expected; input version counter and bytes unchanged",
                  "runtime monitoring: per-member perturbation oracle (L L^T - A = delta I, delta minimal) with exception/warning outcome monitor")
CLAIMED["C20"] = ("reference-model monitor: every kernel of utils.toeplitz / interpolation / sparse / permutation / qr / pinverse and dsmm (+ gradient) on seeded inputs over its documented domain, compared with its dense definition in plain torch",
                  "runtime monitoring: reference-model monitor (dense definitions) over generated inputs")
CLAIMED["C02"] = ("shadow-execution monitor: expression programs (binary + - @ * over ordered class pairs and operator/tensor pairs, scalar kinds, cat, sum/prod, expand/repeat/squeeze/unsqueeze/permute/transpose, add_diagonal/add_jitter/add_low_rank/cat_rows, 1-3 steps) run on the library and step by step on dense tensors; shape and value compared after every step; explicit not-supported errors accepted",
                  "runtime monitoring: shadow execution of expression programs against torch dense semantics")
CLAIMED["C04"] = ("reference-model monitor with hook-observed algorithm path: op.solve / torch.linalg.solve / linear_operator.solve on PD operators (all PD classes, nestings, rhs shapes, left factors) under a settings matrix; the kernel that ran is read from cg.* / chol.* / lanczos.* hook events and decides the tolerance (direct: kappa x precision; CG: configured tolerance, only when it ended without NumericalWarning); triangular operators against solve_triangular",
                  "runtime monitoring: reference-model monitor (backward/forward error on the dense matrix) with hook events selecting the tolerance class")
CLAIMED["C05"] = ("reference-model monitor with hook-observed path: logdet / inv_quad / inv_quad_logdet on PD operators under a settings matrix; deterministic path compared with dense values and documented shapes; on the stochastic path the returned log-determinant is compared with the dense Gauss-Lanczos quadrature log|P| + (n/m) sum u_i^T log(P^-1/2 A P^-1/2) u_i of the probe vectors recorded from the cg.begin hook event (exact identity, 1e-8), inv_quad with the CG tolerance bound",
                  "runtime monitoring: reference-model monitor; exact quadrature oracle over probe vectors recorded by the CG hook")
CLAIMED["C06"] = ("reference-model monitor: cholesky / root_decomposition / root_inv_decomposition / eigh / eigvalsh / svd / diagonalization (every method string, torch.linalg spellings) on PSD / PD operators under size-threshold settings; reconstruction identities checked on the dense matrix (triangularity, R R^T = A or A^-1, orthonormality, U S V^T = A); Lanczos-based results (identified by lanczos.* hook events) against the orthogonal compression onto the space they span",
                  "runtime monitoring: reconstruction-identity monitor on the dense denotation, hook events selecting the Lanczos oracle")
CLAIMED["C19"] = ("outcome monitor with torch as the judge: for every class x public operation taking a second operand or an index, bad operands (wrong / size-1 inner dimension, extra or missing dimensions, non-broadcastable batches, out-of-range int / tensor / list indices, square-only operations on rectangular operators) are first run against the dense matrix; only those torch rejects are judged, and the library must raise at the call or at evaluation of a lazy result",
                  "runtime monitoring: raise/return outcome monitor against torch's own verdict on the densified operand")
CLAIMED["C15"] = ("dispatch monitor: the two registration tables are read from the module at run time and enumerated completely x every operator class x operand kinds x both operand orders (torch.f(op, ...), torch.f(tensor, op), tensor <binop> op); each result is compared with op.method(...) and with torch.f on dense operands (canonical forms for factorizations); a sample of ~45 unregistered torch functions must raise NotImplementedError",
                  "runtime monitoring: exhaustive enumeration of the dispatch tables x class grid with a dense-reference oracle per call")
CLAIMED["C14"] = ("fidelity monitor: clone / detach / to / type / double / float / cpu / evaluate_kernel / representation_tree()(*representation()) on every class under source x target x default dtype in {f32, f64}^3; class, public flags, non-tensor arguments and integer / boolean tensors must be preserved, the dense value (to_dense and the denotation of the result's constructor arguments) must equal the original cast to the target dtype, clones share no storage, requires_grad_ reaches exactly the floating tensors, and every tensor returned by to_dense / diagonal / matmul / indexing / sums keeps the operator's dtype when the default dtype differs",
                  "runtime monitoring: reference-model monitor on converted / rebuilt operators plus dtype and storage observers")
CLAIMED["C08"] = ("hook-trace invariant monitor: linear_cg driven directly on SPD matrices with prescribed spectra, preconditioners, column kinds and limits; the cg.begin / cg.iter / cg.end events (per-iteration iterate, residual, masks, alpha, beta) are checked against A-norm monotonicity and the classical bound down to the solver's accuracy floor, tolerance-on-no-warning, zero columns, frozen columns, scaling, preconditioner independence of the limit, structure / Ritz values / exact quadrature identity of the returned tridiagonals, raising on NaN closures and inconsistent limits, and the logical step bound",
                  "runtime monitoring: invariants over per-iteration hook traces of the real CG loop plus metamorphic pairs")
CLAIMED["C09"] = ("invariant monitor: lanczos_tridiag driven directly on symmetric PSD matrices (full rank, rank deficient, repeated eigenvalues, identity multiples, mixed batches), every budget 1..n+2, supplied and random start vectors; Q^T Q = I, T symmetric tridiagonal, Q^T A Q = T, A Q - Q T supported in the last column, invariance at full Krylov dimension (dimension from an independent float64 Arnoldi), step bound from the lanczos.* hook events; consumers (lanczos roots, inverse roots, diagonalization) against the orthogonal compression onto the space they span",
                  "runtime monitoring: algebraic invariants of the returned Lanczos factors with hook-enforced step bound")
CLAIMED["C10"] = ("hook-trace invariant monitor: pivoted_cholesky (on dense PSD families and on every PD operator class) with the pchol.iter events (pivot, pivot value, internal residual diagonal, permutation, error measure per step) checked against the densely recomputed residuals R_j: PSD residual, vanishing pivot rows, greedy argmax pivots, non-increasing trace, exactness at full rank, internal diagonal = diag(R_j), early stop only below tolerance, pivots a permutation; the (K + D) preconditioner closure / operator / log-determinant against L L^T + D",
                  "runtime monitoring: per-step hook trace checked against dense residual recomputation")
CLAIMED["C11"] = ("hook-trace invariant monitor for MINRES (true residual of every shifted system non-increasing along the minres.iter trace, Krylov-optimal residual against an independent float64 Arnoldi least-squares problem where decidable, consistent stop, zero columns, scaling, additivity, output shapes, step bound) plus reference-model checks of contour_integral_quad and sqrt_inv_matmul (with / without left factor, method and function spelling) against the dense symmetric matrix root",
                  "runtime monitoring: per-iteration hook trace invariants and dense matrix-root reference")
CLAIMED["C13"] = ("write-watchpoint sanitizer: a TorchDispatchMode observes every ATen op executed by the library (also inside torch.jit.script helpers) during sequences of public operations and direct utility calls with caller tensors in hostile layouts (transposed views, slices of sentinel-filled storages, stride-0 expansions); any in-place write (schema is_write) into a caller-owned storage, any change of a caller tensor's version counter / metadata / bytes or of the sentinel padding, and any change of the matrix denoted by the pre-existing operator is a violation",
                  "runtime monitoring: torch-level write-watchpoint sanitizer (TorchDispatchMode) plus before/after snapshots")
CLAIMED["C18"] = ("noise-interposer monitor: torch.randn is replaced (TorchFunctionMode) so that zero_mean_mvn_samples can be run once per unit vector of its flattened base noise (auxiliary draws such as random Lanczos start vectors come from a fixed seeded stream); the resulting matrix M of the map noise -> samples must be linear (a random noise vector reproduces M z), have output shape (k, *batch, n) and satisfy M M^T = I_k (x) blockdiag_b(A_b) to the accuracy of the root used (Lanczos roots, identified by hook events, against the orthogonal compression); the contour-integral variant is judged as A^1/2 z for the recorded noise",
                  "runtime monitoring: torch-level noise interposer turning the sampler into an exactly decidable linear map")
CLAIMED["C12"] = ("history monitor with a fresh-copy reference: random histories of 2-8 queries and derivations on ONE operator object with settings changing between steps; each answer (canonical form) is compared with the same query on a freshly built copy that saw no earlier queries, and after every step each entry of the live memo dictionaries (history object and operators derived by add_jitter / add_diagonal / add_low_rank / cat_rows / indexing / transpose / scaling / expansion) is checked to be a valid answer for its key on the matrix its owner denotes (keyed orientation of Cholesky factors, roots multiply out, eigen / singular pairs reconstruct, cached dense values / diagonals / sizes); memo getters are wrapped to count cache hits and Lanczos hook events decide which tolerance applies",
                  "runtime monitoring: recorded query histories checked against a history-free replica and a memo-validity invariant at quiescent points")
CLAIMED["C07"] = ("gradient monitor with a differentiable dense reference: every operator is rebuilt through the library's own representation_tree from fresh leaf tensors (random requires-grad subsets, stride-0 expanded parameters, broadcast constants); autograd.grad of a random linear functional of each entry point's output w.r.t. leaves and right-hand sides must equal autograd.grad of the same functional of the torch computation on the dense matrix assembled differentiably from the same leaves (on the tangent space of the symmetric manifold for symmetric-only entry points, on the triangle for triangular leaves), for memory_efficient on/off and max_cholesky_size 0/default (stochastic trace estimates made exact by interposing the probe basis); plus a post-condition wrapped around EVERY _bilinear_derivative call (arity = number of representation tensors, each entry sum_to_size-reducible and equal to the dense-model gradient of sum(U * (A V)))",
                  "runtime monitoring: shadow execution against a differentiable reference model plus post-condition contracts on the real derivative methods")
PENDING = {}
def main():
    hooks_commits = []
    hc = os.path.join(HERE, "hooks_commits.txt")
    if os.path.exists(hc):
        hooks_commits = [l.split()[0] for l in open(hc) if l.strip() and not l.startswith("#")]
    checks = []
    for pid, (text, tech) in sorted(CLAIMED.items()):
        checks.append(dict(
            property_id=pid,
            quick_cmd=f"./check {pid} --tier quick",
            thorough_cmd=f"./check {pid} --tier thorough",
            evidence_file=f"/verif/evidence/{pid}.json",
            replay_cmd_template=f"./check {pid} --replay {{path}}",
            engine="lomon",
            level_claimed=dict(category="exploration", text="held on the executions observed: " + text, design_ref=f"DESIGN.md section 5, {pid}"),
            level_note="trusted base: torch (dense semantics), lomon/model.py denotation table, tolerance table of lomon/compare.py; paths the workload never drives are not covered (see evidence)",
            technique=tech,
        ))
    props = [json.loads(l)["id"] for l in open(os.path.join(HERE, "properties.jsonl"))]
    na = [dict(property_id=p, reason=PENDING.get(p, "check not yet built in this commit (runtime monitor designed in DESIGN.md section 5; not claimed until it runs silent on the unchanged tree)")) for p in props if p not in CLAIMED]
    man = dict(
        version=1,
        setup_cmd="./setup.sh",
        hooks=dict(guard="LINEAR_OPERATOR_VERIF", enable="checks export LINEAR_OPERATOR_VERIF=1 before importing /repo (editable install, no build step)",
                   baseline_off_cmd="cd /repo && env -u LINEAR_OPERATOR_VERIF " + BASE["cmd"].replace("cd /repo && ", "").replace("--junitxml=<file>", "--junitxml=/verif/.run/baseline_off.junit.xml"),
                   source_commits=hooks_commits, add_only=True),
        engines=[dict(name="lomon", path="/verif/lomon", serves_properties=sorted(CLAIMED), kind_free_text="runtime monitors (reference-model, hook invariants, torch-level sanitizers) driven by seeded workloads in 16 worker processes")],
        checks=checks,
        not_applicable=na,
        notes="All checks: ./check <ID> --tier quick|thorough; exit 0 held / 1 violation (VIOLATION line + replay file) / 2 inconclusive. known_findings.txt lists open findings and fixed defects.",
    )
    json.dump(man, open(os.path.join(HERE, "MANIFEST.json"), "w"), indent=1)
    try:
        import jsonschema
        jsonschema.validate(man, json.load(open("/root/.vp/MANIFEST.schema.json")))
        print("MANIFEST valid;", len(checks), "checks")
    except ImportError:
        print("MANIFEST written (jsonschema unavailable)")
if __name__ == "__main__":
    main()
