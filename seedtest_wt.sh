#!/bin/sh
# development aid: ./seedtest_wt.sh <worktree-with-the-change-applied> "C01 C04" [seeds]
# runs the quick checks against a scratch worktree of the repository (LOMON_REPO), never touching /repo; evidence goes to .run/seed-evidence
wt="$1"; props="$2"; seeds="${3:-0}"
for p in $props; do
  for s in $seeds; do
    out=$(LOMON_REPO="$wt" VERIF_EVIDENCE_DIR=/verif/.run/seed-evidence /verif/check "$p" --tier quick --seed "$s" 2>&1)
    n=$(printf '%s\n' "$out" | grep -c '^VIOLATION')
    inc=$(printf '%s\n' "$out" | grep -c '^INCONCLUSIVE')
    echo "$p seed=$s violations=$n inconclusive=$inc :: $(printf '%s\n' "$out" | grep -A1 '^VIOLATION' | grep -v '^VIOLATION' | head -2 | cut -c1-330 | tr '\n' ' ')"
  done
done
