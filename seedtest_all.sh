#!/bin/sh
# development aid: ./seedtest_all.sh [pattern]  -> for every seeded/<id>/patch.diff (matching pattern) create a scratch worktree of /repo under /tmp,
# apply the patch there, run the quick check of its property against that worktree (LOMON_REPO), remove the worktree.  /repo is never modified.
pat="${1:-C}"
for d in /verif/seeded/${pat}*; do
  id=$(basename "$d"); p=$(echo "$id" | cut -c1-3); wt=/tmp/seedwt-$$-$id
  git -C /repo worktree add --detach "$wt" HEAD >/dev/null 2>&1 || { echo "$id: cannot create worktree"; continue; }
  if git -C "$wt" apply "$d/patch.diff" 2>/dev/null; then
    /verif/seedtest_wt.sh "$wt" "$p" "${2:-0}" | cut -c1-200 | sed "s/^/$id: /"
  else
    echo "$id: patch no longer applies to /repo HEAD"
  fi
  git -C /repo worktree remove --force "$wt" >/dev/null 2>&1
done
